import NmVerif.Eval.Eval
import NmVerif.Lemmas.Addressing
import NmVerif.Props.C01
/-
  C10 — Eager evaluation returns exactly the lazy view; composition is unobservable.
-/
namespace NmVerif.Props.C10
open NmVerif NmVerif.Eval

variable {α : Type}

theorem copyStep_shape (v : Arr α) (s : Shape) (o : NDA α) (i : Nat) :
    (copyStep v s o i).shape = o.shape ∧ (copyStep v s o i).colMajor = o.colMajor ∧
    (copyStep v s o i).data.length = o.data.length := by
  simp [copyStep, NDA.set]

/-- loop invariant of the copy loop: after processing the flat positions in `l`, the logical element `j`
    holds the view's element if `j` was visited and its old value otherwise -/
theorem fold_copy_get (v : Arr α) (s : Shape) (hs : Pos s) (l : List Nat) (hl : ∀ i ∈ l, i < prod s)
    (o : NDA α) (hw : o.WF) (hsh : o.shape = s) (j : Idx) (hj : InShape j s) :
    let r := l.foldl (copyStep v s) o
    r.shape = s ∧ r.WF ∧
    r.get? j = if (∃ i ∈ l, ndindex s i = j) then some (v.get j) else o.get? j := by
  induction l generalizing o with
  | nil => simp [hsh, hw]
  | cons i is ih =>
    have hi : i < prod s := hl i (by simp)
    have hin : InShape (ndindex s i) s := indices_inShape hs i
    have hw' : (copyStep v s o i).WF := by
      unfold copyStep; exact C01.set_WF o hw _ _
    have hsh' : (copyStep v s o i).shape = s := by simp [copyStep, NDA.set, hsh]
    have := ih (fun k hk => hl k (by simp [hk])) (copyStep v s o i) hw' hsh'
    simp only [List.foldl_cons]
    obtain ⟨h1, h2, h3⟩ := this
    refine ⟨h1, h2, ?_⟩
    rw [h3]
    by_cases hex : ∃ k ∈ is, ndindex s k = j
    · have : ∃ k ∈ i :: is, ndindex s k = j := by obtain ⟨k, hk, e⟩ := hex; exact ⟨k, by simp [hk], e⟩
      simp [hex, this]
    · by_cases hij : ndindex s i = j
      · have : ∃ k ∈ i :: is, ndindex s k = j := ⟨i, by simp, hij⟩
        simp only [hex, this, if_true, if_false]
        unfold copyStep
        rw [hij]
        exact C01.get_set_same o hw j (hsh ▸ hj) _
      · have : ¬ ∃ k ∈ i :: is, ndindex s k = j := by
          rintro ⟨k, hk, e⟩
          simp at hk
          rcases hk with rfl | hk
          · exact hij e
          · exact hex ⟨k, hk, e⟩
        simp only [hex, this, if_false]
        unfold copyStep
        exact C01.get_set_other o (ndindex s i) j (hsh ▸ hin) (hsh ▸ hj) hij _

/-- evaluating into a supplied output of the right shape: every element equals the view's element at that
    index, for row-major and column-major outputs alike -/
theorem evalInto_eq_view (out : NDA α) (v : Arr α) (hw : out.WF) (hsh : out.shape = v.shape) (hs : Pos v.shape)
    (j : Idx) (hj : InShape j v.shape) :
    (evalInto out v).shape = v.shape ∧ (evalInto out v).get? j = some (v.get j) := by
  unfold evalInto
  simp only [hsh, if_true]
  have := fold_copy_get v v.shape hs (List.range (prod v.shape)) (fun i hi => by simpa using hi) out hw hsh j hj
  obtain ⟨h1, _, h3⟩ := this
  refine ⟨h1, ?_⟩
  rw [h3]
  have : ∃ i ∈ List.range (prod v.shape), ndindex v.shape i = j :=
    ⟨computeOffset j (strides v.shape), by simpa using offset_lt hj, indices_offset hj⟩
  rw [if_pos this]

/-- an output of the wrong shape is left untouched (the silent return of eval.hpp) -/
theorem evalInto_mismatch_unchanged (out : NDA α) (v : Arr α) (h : out.shape ≠ v.shape) : evalInto out v = out := by
  unfold evalInto; simp [h]

theorem evalFresh_eq_view [Inhabited α] (cm : Bool) (v : Arr α) (hs : Pos v.shape) (j : Idx) (hj : InShape j v.shape) :
    (evalFresh cm v).shape = v.shape ∧ (evalFresh cm v).get? j = some (v.get j) := by
  unfold evalFresh
  exact evalInto_eq_view _ v (by simp [NDA.WF]) rfl hs j hj

/-- array::fn(args) ≈ view::fn(args): the evaluated array denotes the view (either result layout) -/
theorem evalFresh_equiv [Inhabited α] (cm : Bool) (v : Arr α) (hs : Pos v.shape) :
    (evalFresh cm v).toArr.Equiv v := by
  refine ⟨(evalFresh_eq_view cm v hs (ndindex v.shape 0) (indices_inShape hs 0)).1, ?_⟩
  intro i hi
  have hsh := (evalFresh_eq_view cm v hs (ndindex v.shape 0) (indices_inShape hs 0)).1
  have hi' : InShape i v.shape := by simpa [NDA.toArr, hsh] using hi
  simp [NDA.toArr, (evalFresh_eq_view cm v hs i hi').2]

/-- row-major and column-major results denote the same array -/
theorem layouts_agree [Inhabited α] (v : Arr α) (hs : Pos v.shape) :
    (evalFresh false v).toArr.Equiv (evalFresh true v).toArr :=
  (evalFresh_equiv false v hs).trans (evalFresh_equiv true v hs).symm

/-- an indexing view only looks at in-shape elements of its operand: equivalent operands give equivalent views -/
theorem apply_congr (w : IxView) (a b : Arr α) (fill : α) (hab : a.Equiv b) (hsrc : w.src = a.shape) (hb : w.InBounds) :
    (w.apply a fill).Equiv (w.apply b fill) := by
  refine ⟨rfl, ?_⟩
  intro d hd
  simp only [IxView.apply] at *
  cases hm : w.map d with
  | none => rfl
  | some i => exact hab.2 i (hsrc ▸ hb d hd i hm)

/-- element-wise operations (ufuncs after broadcasting) respect equivalence -/
theorem map_congr (f : α → α) (a b : Arr α) (hab : a.Equiv b) : (a.map f).Equiv (b.map f) :=
  ⟨hab.1, fun i hi => by simp [Arr.map, hab.2 i hi]⟩

/-- COMPOSITION IS UNOBSERVABLE: an outer indexing view over a lazy inner view equals the outer view over the
    inner view evaluated to a concrete array first (any result layout) -/
theorem compose_unobservable [Inhabited α] (cm : Bool) (outer : IxView) (inner : Arr α) (fill : α)
    (hs : Pos inner.shape) (hsrc : outer.src = inner.shape) (hb : outer.InBounds) :
    (outer.apply (evalFresh cm inner).toArr fill).Equiv (outer.apply inner fill) := by
  have he := evalFresh_equiv cm inner hs
  exact apply_congr outer _ _ fill he (by rw [hsrc]; exact he.1.symm) hb

/-- … and evaluating the composed view gives the same array as evaluating in two steps -/
theorem eval_compose [Inhabited α] (cm cm' : Bool) (outer : IxView) (inner : Arr α) (fill : α)
    (hs : Pos inner.shape) (hd : Pos outer.dst) (hsrc : outer.src = inner.shape) (hb : outer.InBounds) :
    (evalFresh cm' (outer.apply (evalFresh cm inner).toArr fill)).toArr.Equiv (evalFresh cm' (outer.apply inner fill)).toArr := by
  have h1 := evalFresh_equiv cm' (outer.apply (evalFresh cm inner).toArr fill) hd
  have h2 := evalFresh_equiv cm' (outer.apply inner fill) hd
  exact h1.trans ((compose_unobservable cm outer inner fill hs hsrc hb).trans h2.symm)

/-! non-vacuity -/
example : (evalFresh true (Arr.iota [2,3])).data = [0,3,1,4,2,5] := by decide
example : (evalFresh false (Arr.iota [2,3])).data = [0,1,2,3,4,5] := by decide
example : (evalInto ({ shape := [3,2], colMajor := false, data := [9,9,9,9,9,9] } : NDA Nat) (Arr.iota [2,3])).data =
    [9,9,9,9,9,9] := by decide

end NmVerif.Props.C10
