import NmVerif.Index.Reduce
import NmVerif.Lemmas.Addressing
import NmVerif.Props.C01
/-
  Helper lemmas for C08 (reductions / accumulations).  Property statements live in NmVerif/Props/C08.lean.

  Route: the flat positions of `flatten(apply_slice(a, sl))` enumerate `boxIdx sl` (C01 enumeration theorem);
  for the slices `reduction_slices` builds, `boxIdx sl` is the sub-list of `allIdx shape` whose projection on the
  non-reduced coordinates is the requested result index (`slicesL_box`); `reducer` is `foldFirst` of that list.
-/
namespace NmVerif.Reduce
open NmVerif

/-- multi-indices of a box of half-open ranges, C order -/
def boxIdx : List (Nat × Nat) → List Idx
  | [] => [[]]
  | p :: t => (List.range' p.1 (p.2 - p.1)).flatMap (fun x => (boxIdx t).map (x :: ·))

theorem sliceIndex_cons (p : Nat × Nat) (t : List (Nat × Nat)) (x : Nat) (d : Idx) :
    sliceIndex (p :: t) (x :: d) = (p.1 + x) :: sliceIndex t d := rfl

theorem map_sliceIndex_allIdx (sl : List (Nat × Nat)) :
    (allIdx (sliceShape sl)).map (sliceIndex sl) = boxIdx sl := by
  induction sl with
  | nil => simp [sliceShape, allIdx, boxIdx, sliceIndex]
  | cons p t ih =>
    simp only [sliceShape, List.map_cons, allIdx, boxIdx]
    rw [List.map_flatMap, List.range'_eq_map_range, List.flatMap_map]
    apply flatMap_congr'
    intro i _
    rw [List.map_map, ← ih, List.map_map]
    apply List.map_congr_left
    intro d _
    simp [sliceIndex, sliceShape]

theorem reducer_eq_foldFirst {α : Type} (op : α → α → α) (init : Option α) (n : Nat) (elem : Nat → α) :
    reducer op init n elem = foldFirst op init ((List.range n).map elem) := by
  cases init with
  | some i0 => simp [reducer, foldFirst, List.foldl_map]
  | none =>
    cases n with
    | zero => simp [reducer, foldFirst]
    | succ m =>
      have : List.range (m+1) = 0 :: List.range' 1 m := by
        rw [List.range_eq_range', List.range'_succ]
      simp [reducer, foldFirst, this, List.foldl_map]



theorem flattenReduce_eq {α : Type} (ident : Option α) (op : α → α → α) (init : Option α) (n : Nat) (elem : Nat → α) :
    flattenReduce ident op init n elem = foldNumpy ident op init ((List.range n).map elem) := by
  unfold flattenReduce
  cases n with
  | zero => simp [foldNumpy, emptyFold]
  | succ m =>
    rw [if_neg (by omega), reducer_eq_foldFirst]
    have : List.range (m+1) = 0 :: List.range' 1 m := by
      rw [List.range_eq_range', List.range'_succ]
    rw [this]; rfl

theorem foldNumpy_of_ne_nil {α : Type} (ident : Option α) (op : α → α → α) (init : Option α) {l : List α} (h : l ≠ []) :
    foldNumpy ident op init l = foldFirst op init l := by
  cases l with
  | nil => exact absurd rfl h
  | cons x xs => rfl

theorem foldNumpy_nil {α : Type} (ident : Option α) (op : α → α → α) (init : Option α) :
    foldNumpy ident op init [] = emptyFold ident init := rfl

/-- positivity of the extents on the reduced positions only (`p` = `in_axis`, positions counted from `i`) -/
def PosOn (p : Nat → Bool) : Nat → Shape → Prop
  | _, [] => True
  | i, a :: t => (p i = true → 0 < a) ∧ PosOn p (i+1) t

theorem PosOn_of_pos (p : Nat → Bool) : ∀ (s : Shape) (i : Nat), Pos s → PosOn p i s := by
  intro s
  induction s with
  | nil => intro _ _; trivial
  | cons a t ih => intro i hs; exact ⟨fun _ => hs.head, ih (i+1) hs.tail⟩

theorem prod_eq_zero_of_not_pos {s : List Nat} (h : ¬ Pos s) : prod s = 0 := by
  induction s with
  | nil => exact absurd (fun x hx => by simp at hx) h
  | cons a t ih =>
    simp only [prod]
    by_cases ha : a = 0
    · simp [ha]
    · have : ¬ Pos t := fun ht => h (fun x hx => by
        simp only [List.mem_cons] at hx
        rcases hx with rfl | hx
        · omega
        · exact ht x hx)
      simp [ih this]

theorem allIdx_eq_nil_of_not_pos {s : Shape} (h : ¬ Pos s) : allIdx s = [] := by
  apply List.eq_nil_iff_forall_not_mem.2
  intro i hi
  exact h (pos_of_inShape ((Props.C01.mem_allIdx_iff s i).1 hi))

/-- the flat positions of any shape enumerate `allIdx` (both empty when an extent is 0) -/
theorem map_ndindex_range_all (s : Shape) : (List.range (prod s)).map (ndindex s) = allIdx s := by
  by_cases hs : Pos s
  · exact map_ndindex_range s hs
  · rw [prod_eq_zero_of_not_pos hs, allIdx_eq_nil_of_not_pos hs]; rfl

/-- list-consuming form of `reductionSlicesLoop` -/
def slicesL (p : Nat → Bool) (keep : Bool) : Nat → Idx → Shape → Option (List (Nat × Nat))
  | _, _, [] => some []
  | i, d, s :: ss =>
    if p i then (slicesL p keep (i+1) (if keep then d.tail else d) ss).map ((0, s) :: ·)
    else match d with
      | [] => none
      | x :: d' => (slicesL p keep (i+1) d' ss).map ((x, x+1) :: ·)

theorem reductionSlicesLoop_eq (p : Nat → Bool) (keep : Bool) (d : Idx) (s : Shape) (i ii : Nat) :
    reductionSlicesLoop p keep d i ii s = slicesL p keep i (d.drop ii) s := by
  induction s generalizing i ii with
  | nil => simp [reductionSlicesLoop, slicesL]
  | cons a t ih =>
    simp only [reductionSlicesLoop, slicesL]
    by_cases hp : p i = true
    · simp only [hp, if_true]
      cases keep with
      | true => simp only [if_true]; rw [ih, List.tail_drop]
      | false => simp only [Bool.false_eq_true, if_false]; rw [ih]
    · have hp' : p i = false := by simpa using hp
      simp only [hp', Bool.false_eq_true, if_false]
      cases hd : d[ii]? with
      | none =>
        have : d.drop ii = [] := List.drop_eq_nil_of_le (by simpa using hd)
        simp [this]
      | some x =>
        obtain ⟨hlt, hx⟩ := List.getElem?_eq_some_iff.mp hd
        rw [List.drop_eq_getElem_cons hlt, hx]
        simp only []
        rw [ih]

/-- list form of the projection of a source index onto the result index -/
def projL (p : Nat → Bool) (keep : Bool) : Nat → Idx → Idx
  | _, [] => []
  | i, x :: xs =>
    if p i then (if keep then 0 :: projL p keep (i+1) xs else projL p keep (i+1) xs)
    else x :: projL p keep (i+1) xs

theorem flatMap_eq_single {β : Type} (f : Nat → List β) (j0 : Nat) :
    ∀ (l : List Nat), l.Nodup → j0 ∈ l → (∀ x ∈ l, x ≠ j0 → f x = []) → l.flatMap f = f j0 := by
  intro l
  induction l with
  | nil => intro _ h; simp at h
  | cons y ys ih =>
    intro hnd hmem hz
    rw [List.nodup_cons] at hnd
    simp only [List.flatMap_cons]
    by_cases hy : y = j0
    · subst hy
      have : ys.flatMap f = [] := by
        rw [List.flatMap_eq_nil_iff]
        intro x hx
        exact hz x (by simp [hx]) (by rintro rfl; exact hnd.1 hx)
      rw [this, List.append_nil]
    · have hm : j0 ∈ ys := by
        simp only [List.mem_cons] at hmem
        rcases hmem with h | h
        · exact absurd h.symm hy
        · exact h
      rw [hz y (by simp) hy, List.nil_append]
      exact ih hnd.2 hm (fun x hx => hz x (by simp [hx]))

/-- for any shape (zero extents allowed): the slices exist and their box is the filtered enumeration -/
theorem slicesL_box_all (p : Nat → Bool) (keep : Bool) :
    ∀ (s : Shape) (i : Nat) (j : Idx), InShape j (removeDimsLoop p keep i s) →
      ∃ sl, slicesL p keep i j s = some sl ∧
        boxIdx sl = (allIdx s).filter (fun x => projL p keep i x == j) := by
  intro s
  induction s with
  | nil =>
    intro i j hj
    simp only [removeDimsLoop] at hj
    cases j with
    | nil => exact ⟨[], rfl, by simp [boxIdx, allIdx, List.filter_cons, projL]⟩
    | cons _ _ => simp [InShape] at hj
  | cons a t ih =>
    intro i j hj
    by_cases hp : p i = true
    · cases keep with
      | true =>
        simp only [removeDimsLoop, hp, Bool.not_true, Bool.and_false, Bool.false_eq_true, if_false, if_true] at hj
        cases j with
        | nil => simp [InShape] at hj
        | cons j0 j' =>
          simp only [InShape] at hj
          have hj0 : j0 = 0 := by omega
          subst hj0
          obtain ⟨sl, h1, h3⟩ := ih (i+1) j' hj.2
          refine ⟨(0, a) :: sl, by simp [slicesL, hp, h1], ?_⟩
          simp only [boxIdx, allIdx, Nat.sub_zero]
          rw [List.filter_flatMap, ← List.range_eq_range']
          apply flatMap_congr'
          intro x _
          rw [List.filter_map, h3]
          congr 1
          apply List.filter_congr
          intro y _
          simp [projL, hp]
      | false =>
        simp only [removeDimsLoop, hp, Bool.not_false, Bool.and_true, if_true] at hj
        obtain ⟨sl, h1, h3⟩ := ih (i+1) j hj
        refine ⟨(0, a) :: sl, by simp [slicesL, hp, h1], ?_⟩
        simp only [boxIdx, allIdx, Nat.sub_zero]
        rw [List.filter_flatMap, ← List.range_eq_range']
        apply flatMap_congr'
        intro x _
        rw [List.filter_map, h3]
        congr 1
        apply List.filter_congr
        intro y _
        simp [projL, hp]
    · have hp' : p i = false := by simpa using hp
      simp only [removeDimsLoop, hp', Bool.false_and, Bool.false_eq_true, if_false] at hj
      cases j with
      | nil => simp [InShape] at hj
      | cons j0 j' =>
        simp only [InShape] at hj
        obtain ⟨sl, h1, h3⟩ := ih (i+1) j' hj.2
        refine ⟨(j0, j0+1) :: sl, by simp [slicesL, hp', h1], ?_⟩
        simp only [boxIdx, allIdx, Nat.add_sub_cancel_left]
        rw [List.filter_flatMap]
        rw [flatMap_eq_single _ j0 (List.range a) List.nodup_range (by simpa using hj.1)]
        · rw [List.filter_map, h3]
          simp only [List.range'_one, List.flatMap_cons, List.flatMap_nil, List.append_nil]
          congr 1
          apply List.filter_congr
          intro y _
          simp [projL, hp']
        · intro x _ hx
          rw [List.filter_map]
          simp only [List.map_eq_nil_iff, List.filter_eq_nil_iff]
          intro y _
          simp [projL, hp', hx]

/-- the slices have positive extents as soon as the *reduced* extents are positive -/
theorem slicesL_pos (p : Nat → Bool) (keep : Bool) :
    ∀ (s : Shape) (i : Nat) (j : Idx) (sl : List (Nat × Nat)), slicesL p keep i j s = some sl → PosOn p i s →
      Pos (sliceShape sl) := by
  intro s
  induction s with
  | nil =>
    intro i j sl h _
    simp only [slicesL, Option.some.injEq] at h
    subst h
    intro x hx; simp [sliceShape] at hx
  | cons a t ih =>
    intro i j sl h hpos
    by_cases hp : p i = true
    · simp only [slicesL, hp, if_true, Option.map_eq_some_iff] at h
      obtain ⟨sl', h1, rfl⟩ := h
      intro x hx
      simp only [sliceShape, List.map_cons, List.mem_cons] at hx
      rcases hx with rfl | hx
      · simpa using hpos.1 hp
      · exact ih (i+1) _ sl' h1 hpos.2 x hx
    · have hp' : p i = false := by simpa using hp
      cases j with
      | nil => simp [slicesL, hp'] at h
      | cons j0 j' =>
        simp only [slicesL, hp', Bool.false_eq_true, if_false, Option.map_eq_some_iff] at h
        obtain ⟨sl', h1, rfl⟩ := h
        intro x hx
        simp only [sliceShape, List.map_cons, List.mem_cons] at hx
        rcases hx with rfl | hx
        · simp
        · exact ih (i+1) _ sl' h1 hpos.2 x hx

theorem slicesL_box (p : Nat → Bool) (keep : Bool) :
    ∀ (s : Shape) (i : Nat) (j : Idx), Pos s → InShape j (removeDimsLoop p keep i s) →
      ∃ sl, slicesL p keep i j s = some sl ∧ Pos (sliceShape sl) ∧
        boxIdx sl = (allIdx s).filter (fun x => projL p keep i x == j) := by
  intro s i j hs hj
  obtain ⟨sl, h1, h3⟩ := slicesL_box_all p keep s i j hj
  exact ⟨sl, h1, slicesL_pos p keep s i j sl h1 (PosOn_of_pos p s i hs), h3⟩


/-! ### axis normalisation -/

theorem normalizeAxis_of_valid {n : Nat} {a : Int} (h : ValidAxis n a) :
    normalizeAxis n a = some (normAxis n a) := by
  unfold ValidAxis at h
  unfold normalizeAxis normAxis
  rw [if_pos h]
  congr 1
  by_cases ha : a < 0
  · rw [if_pos ha]
    have h1 : a % (n : Int) = (a + n) % (n : Int) := by rw [Int.add_emod_right]
    rw [h1, Int.emod_eq_of_lt (by omega) (by omega), Int.add_comm]
  · rw [if_neg ha, Int.emod_eq_of_lt (by omega) h.2]

theorem normalizeAxis_of_invalid {n : Nat} {a : Int} (h : ¬ ValidAxis n a) : normalizeAxis n a = none := by
  unfold ValidAxis at h
  unfold normalizeAxis
  rw [if_neg h]

theorem normAxis_lt {n : Nat} {a : Int} (h : ValidAxis n a) : normAxis n a < n := by
  unfold ValidAxis at h
  unfold normAxis
  have hn : (0 : Int) < n := by omega
  have h1 := Int.emod_lt_of_pos a hn
  have h2 := Int.emod_nonneg a (by omega : (n : Int) ≠ 0)
  omega

theorem normalizeAxes_eq (n : Nat) (l : List Int) :
    normalizeAxes n l = if (∀ a ∈ l, ValidAxis n a) then some (l.map (normAxis n)) else none := by
  induction l with
  | nil => simp [normalizeAxes]
  | cons a t ih =>
    simp only [normalizeAxes, ih]
    by_cases ha : ValidAxis n a
    · rw [normalizeAxis_of_valid ha]
      by_cases ht : ∀ a ∈ t, ValidAxis n a
      · rw [if_pos ht, if_pos (by intro b hb; simp at hb; rcases hb with rfl | hb; exact ha; exact ht b hb)]
        simp
      · rw [if_neg ht, if_neg (by intro h; exact ht (fun b hb => h b (by simp [hb])))]
    · rw [normalizeAxis_of_invalid ha]
      simp [ha]

theorem inAxis_some (l : List Nat) (k : Nat) : inAxis (some l) k = decide (k ∈ l) := by
  simp [inAxis]

/-! ### the model loops written with `zipIdx` (the SPEC's formulation) -/

theorem removeDimsLoop_eq_zipIdx (p : Nat → Bool) (R : List Nat) (keep : Bool) :
    ∀ (s : Shape) (i : Nat), (∀ k, i ≤ k → k < i + s.length → p k = decide (k ∈ R)) →
      removeDimsLoop p keep i s =
        if keep then (s.zipIdx i).map (fun q => if q.2 ∈ R then 1 else q.1)
        else ((s.zipIdx i).filter (fun q => !decide (q.2 ∈ R))).map (·.1) := by
  intro s
  induction s with
  | nil => intro i _; cases keep <;> simp [removeDimsLoop]
  | cons a t ih =>
    intro i h
    have hi := h i (Nat.le_refl _) (by simp)
    have ih' := ih (i+1) (fun k h1 h2 => h k (by omega) (by simp; omega))
    simp only [removeDimsLoop, List.zipIdx_cons, ih', hi]
    cases keep <;> by_cases hm : i ∈ R <;> simp [hm, List.filter_cons]

theorem projL_eq_zipIdx (p : Nat → Bool) (R : List Nat) (keep : Bool) :
    ∀ (x : Idx) (i : Nat), (∀ k, i ≤ k → k < i + x.length → p k = decide (k ∈ R)) →
      projL p keep i x =
        if keep then (x.zipIdx i).map (fun q => if q.2 ∈ R then 0 else q.1)
        else ((x.zipIdx i).filter (fun q => !decide (q.2 ∈ R))).map (·.1) := by
  intro x
  induction x with
  | nil => intro i _; cases keep <;> simp [projL]
  | cons a t ih =>
    intro i h
    have hi := h i (Nat.le_refl _) (by simp)
    have ih' := ih (i+1) (fun k h1 h2 => h k (by omega) (by simp; omega))
    simp only [projL, List.zipIdx_cons, ih', hi]
    cases keep <;> by_cases hm : i ∈ R <;> simp [hm, List.filter_cons]

theorem removeDimsLoop_length (p : Nat → Bool) :
    ∀ (s : Shape) (i : Nat),
      (removeDimsLoop p false i s).length + ((List.range' i s.length).filter p).length = s.length := by
  intro s
  induction s with
  | nil => intro i; simp [removeDimsLoop]
  | cons a t ih =>
    intro i
    have := ih (i+1)
    simp only [removeDimsLoop, List.length_cons, List.range'_succ, List.filter_cons]
    by_cases hp : p i = true
    · simp [hp]; omega
    · have hp' : p i = false := by simpa using hp
      simp [hp']; omega

theorem filter_range_length (R : List Nat) (n : Nat) (hnd : R.Nodup) (hlt : ∀ k ∈ R, k < n) :
    ((List.range' 0 n).filter (fun k => decide (k ∈ R))).length = R.length := by
  apply List.Perm.length_eq
  rw [List.perm_ext_iff_of_nodup ?_ hnd]
  · intro a
    simp only [List.mem_filter, List.mem_range', decide_eq_true_eq]
    constructor
    · exact fun h => h.2
    · intro h; exact ⟨⟨a, by have := hlt a h; omega⟩, h⟩
  · rw [← List.range_eq_range']
    exact List.Nodup.sublist List.filter_sublist List.nodup_range


theorem mem_allIdx_length {s : Shape} {x : Idx} (h : x ∈ allIdx s) : x.length = s.length :=
  ((NmVerif.Props.C01.mem_allIdx_iff s x).1 h).length_eq

theorem mem_allIdx_inShape {s : Shape} {x : Idx} (h : x ∈ allIdx s) : InShape x s :=
  (NmVerif.Props.C01.mem_allIdx_iff s x).1 h

/-- when every position is reduced all source indices project onto the one result index -/
theorem projL_all (p : Nat → Bool) (keep : Bool) :
    ∀ (s : Shape) (i : Nat) (x j : Idx), (∀ k, i ≤ k → k < i + s.length → p k = true) → x.length = s.length →
      InShape j (removeDimsLoop p keep i s) → projL p keep i x = j := by
  intro s
  induction s with
  | nil =>
    intro i x j _ hx hj
    cases x with
    | nil => cases j with
      | nil => simp [projL]
      | cons _ _ => simp [removeDimsLoop, InShape] at hj
    | cons _ _ => simp at hx
  | cons a t ih =>
    intro i x j h hx hj
    have hi := h i (Nat.le_refl _) (by simp)
    cases x with
    | nil => simp at hx
    | cons x0 x' =>
      have hx' : x'.length = t.length := by simpa using hx
      have h' : ∀ k, i + 1 ≤ k → k < i + 1 + t.length → p k = true := fun k h1 h2 => h k (by omega) (by simp; omega)
      cases keep with
      | true =>
        simp only [removeDimsLoop, hi, Bool.not_true, Bool.and_false, Bool.false_eq_true, if_false, if_true] at hj
        cases j with
        | nil => simp [InShape] at hj
        | cons j0 j' =>
          simp only [InShape] at hj
          simp only [projL, hi, if_true]
          rw [ih (i+1) x' j' h' hx' hj.2]
          congr 1; omega
      | false =>
        simp only [removeDimsLoop, hi, Bool.not_false, Bool.and_true, if_true] at hj
        simp only [projL, hi, if_true, Bool.false_eq_true, if_false]
        exact ih (i+1) x' j h' hx' hj

/-- reads of a sliced, flattened array enumerate the box in C order -/
theorem slicedReads_eq_box (sl : List (Nat × Nat)) (h : Pos (sliceShape sl)) : slicedReads sl = boxIdx sl := by
  unfold slicedReads
  rw [← map_sliceIndex_allIdx, ← map_ndindex_range _ h, List.map_map]
  rfl

/-- … for any slices (both sides empty when a range is empty) -/
theorem slicedReads_eq_box_all (sl : List (Nat × Nat)) : slicedReads sl = boxIdx sl := by
  unfold slicedReads
  rw [← map_sliceIndex_allIdx, ← map_ndindex_range_all, List.map_map]
  rfl

/-! ### accumulate -/

/-- list-consuming form of `accumulateSlices` -/
def accL (axis : Int) : Nat → Idx → Shape → Option (List (Nat × Nat))
  | _, _, [] => some []
  | i, d, _ :: ss =>
    match d with
    | [] => none
    | x :: d' => (accL axis (i+1) d' ss).map ((if (i : Int) = axis then 0 else x, x+1) :: ·)

theorem accumulateSlices_eq (axis : Int) (d : Idx) (s : Shape) (i : Nat) :
    accumulateSlices axis d i s = accL axis i (d.drop i) s := by
  induction s generalizing i with
  | nil => simp [accumulateSlices, accL]
  | cons a t ih =>
    simp only [accumulateSlices]
    cases hd : d[i]? with
    | none =>
      have : d.drop i = [] := List.drop_eq_nil_of_le (by simpa using hd)
      simp [this, accL]
    | some x =>
      obtain ⟨hlt, hx⟩ := List.getElem?_eq_some_iff.mp hd
      rw [List.drop_eq_getElem_cons hlt, hx]
      simp only [accL]
      rw [ih]

theorem accL_past (axis : Int) :
    ∀ (s : Shape) (i : Nat) (d : Idx), axis < (i : Int) → d.length = s.length →
      ∃ sl, accL axis i d s = some sl ∧ Pos (sliceShape sl) ∧ boxIdx sl = [d] := by
  intro s
  induction s with
  | nil =>
    intro i d _ hd
    cases d with
    | nil => exact ⟨[], rfl, by intro x hx; simp [sliceShape] at hx, rfl⟩
    | cons _ _ => simp at hd
  | cons a t ih =>
    intro i d hi hd
    cases d with
    | nil => simp at hd
    | cons x d' =>
      obtain ⟨sl, h1, h2, h3⟩ := ih (i+1) d' (by omega) (by simpa using hd)
      have hne : ¬ ((i : Int) = axis) := by omega
      refine ⟨(x, x+1) :: sl, by simp [accL, h1, hne], ?_, ?_⟩
      · intro y hy
        simp only [sliceShape, List.map_cons, List.mem_cons] at hy
        rcases hy with rfl | hy
        · simp
        · exact h2 y hy
      · simp [boxIdx, h3]

theorem accL_at (ax : Nat) :
    ∀ (s : Shape) (i r : Nat) (d : Idx), ax = i + r → r < s.length → d.length = s.length →
      ∃ sl m, accL (ax : Int) i d s = some sl ∧ Pos (sliceShape sl) ∧ d[r]? = some m ∧
        boxIdx sl = (List.range (m+1)).map (fun x => d.set r x) := by
  intro s
  induction s with
  | nil => intro i r d _ hr; simp at hr
  | cons a t ih =>
    intro i r d hax hr hd
    cases d with
    | nil => simp at hd
    | cons x d' =>
      have hd' : d'.length = t.length := by simpa using hd
      cases r with
      | zero =>
        obtain ⟨sl, h1, h2, h3⟩ := accL_past (ax : Int) t (i+1) d' (by omega) hd'
        have he : ((i : Int) = (ax : Int)) := by omega
        refine ⟨(0, x+1) :: sl, x, by simp [accL, h1, he], ?_, by simp, ?_⟩
        · intro y hy
          simp only [sliceShape, List.map_cons, List.mem_cons] at hy
          rcases hy with rfl | hy
          · simp
          · exact h2 y hy
        · simp only [boxIdx, h3, Nat.sub_zero, List.map_cons, List.map_nil, List.set_cons_zero]
          rw [← List.range_eq_range']
          induction (List.range (x+1)) with
          | nil => rfl
          | cons y ys ih2 => simp [List.flatMap_cons, ih2]
      | succ r' =>
        obtain ⟨sl, m, h1, h2, h3, h4⟩ := ih (i+1) r' d' (by omega) (by simpa using hr) hd'
        have hne : ¬ ((i : Int) = (ax : Int)) := by omega
        refine ⟨(x, x+1) :: sl, m, by simp [accL, h1, hne], ?_, by simpa using h3, ?_⟩
        · intro y hy
          simp only [sliceShape, List.map_cons, List.mem_cons] at hy
          rcases hy with rfl | hy
          · simp
          · exact h2 y hy
        · simp [boxIdx, h4, List.map_map, Function.comp_def]


/-! ### model = spec, assembled -/

theorem specShape_eq_loop (p : Nat → Bool) (R : List Nat) (keep : Bool) (s : Shape)
    (h : ∀ k, k < s.length → p k = decide (k ∈ R)) :
    specShape s R keep = removeDimsLoop p keep 0 s := by
  rw [removeDimsLoop_eq_zipIdx p R keep s 0 (fun k _ h2 => h k (by omega))]
  rfl

theorem proj_eq_loop (p : Nat → Bool) (R : List Nat) (keep : Bool) (x : Idx) (n : Nat) (hx : x.length = n)
    (h : ∀ k, k < n → p k = decide (k ∈ R)) :
    proj R keep x = projL p keep 0 x := by
  rw [projL_eq_zipIdx p R keep x 0 (fun k _ h2 => h k (by omega))]
  rfl

theorem removeDims_eq_spec (s : Shape) (axis : AxisArg) (keep : Bool) (hv : ValidAxes s.length axis) :
    removeDims s axis keep = some (specShape s (axisSet s.length axis) keep) := by
  cases axis with
  | none =>
    have hp : ∀ k, k < s.length → inAxis none k = decide (k ∈ List.range s.length) := by
      intro k hk; simp [inAxis, hk]
    simp only [removeDims, unwrapAxes, axisSet]
    rw [specShape_eq_loop (inAxis none) _ keep s hp]
    cases keep with
    | true => simp
    | false =>
      have hl := removeDimsLoop_length (inAxis none) s 0
      have : (List.range' 0 s.length).filter (inAxis none) = List.range' 0 s.length := by
        rw [List.filter_eq_self]; intro a _; rfl
      rw [this, List.length_range'] at hl
      simp only [Bool.false_eq_true, if_false]
      rw [if_pos ⟨Nat.le_refl _, by omega⟩]
  | some l =>
    obtain ⟨hval, hnd⟩ := hv
    have hp : ∀ k, k < s.length → inAxis (some (l.map (normAxis s.length))) k = decide (k ∈ l.map (normAxis s.length)) :=
      fun k _ => inAxis_some _ k
    simp only [removeDims, unwrapAxes, axisSet, normalizeAxes_eq, if_pos hval, Option.map_some]
    rw [specShape_eq_loop _ _ keep s hp]
    cases keep with
    | true => simp
    | false =>
      have hl := removeDimsLoop_length (inAxis (some (l.map (normAxis s.length)))) s 0
      have hf : (List.range' 0 s.length).filter (inAxis (some (l.map (normAxis s.length))))
          = (List.range' 0 s.length).filter (fun k => decide (k ∈ l.map (normAxis s.length))) := by
        apply List.filter_congr; intro k _; exact inAxis_some _ k
      rw [hf, filter_range_length _ _ hnd (by
        intro k hk
        simp only [List.mem_map] at hk
        obtain ⟨a, ha, rfl⟩ := hk
        exact normAxis_lt (hval a ha))] at hl
      simp only [Bool.false_eq_true, if_false, List.length_map] at hl ⊢
      rw [if_pos ⟨by omega, by omega⟩]

theorem reduceElemId_eq_reads {α : Type} (ident : Option α) (op : α → α → α) (init : Option α) (a : Arr α) (axis : AxisArg)
    (keep : Bool) (d : Idx) :
    reduceElemId ident op init a axis keep d =
      (reduceReads a.shape axis keep d).bind (fun r => foldNumpy ident op init (r.map a.get)) := by
  cases axis with
  | none => simp [reduceElemId, reduceReads, flattenReduce_eq, List.map_map, Function.comp_def]
  | some l =>
    simp only [reduceElemId, reduceReads]
    cases reductionSlices d a.shape (some l) keep with
    | none => rfl
    | some sl =>
      have hf : slicedFlatElem a sl = fun x => a.get (sliceIndex sl (ndindex (sliceShape sl) x)) := rfl
      simp [flattenReduce_eq, slicedReads, hf, List.map_map, Function.comp_def]

theorem reduceElem_eq_reads {α : Type} (op : α → α → α) (init : Option α) (a : Arr α) (axis : AxisArg)
    (keep : Bool) (d : Idx) :
    reduceElem op init a axis keep d =
      (reduceReads a.shape axis keep d).bind (fun r => foldNumpy none op init (r.map a.get)) :=
  reduceElemId_eq_reads none op init a axis keep d

/-- any shape — zero extents allowed — and any accepted axis argument: the view reads exactly the addressed indices
    (none at all when a reduced axis has extent 0) -/
theorem reduceReads_eq_addressed_all (s : Shape) (axis : AxisArg) (keep : Bool)
    (hv : ValidAxes s.length axis) (j : Idx) (hj : InShape j (specShape s (axisSet s.length axis) keep)) :
    reduceReads s axis keep j = some (addressed s (axisSet s.length axis) keep j) := by
  cases axis with
  | none =>
    have hp : ∀ k, k < s.length → inAxis none k = decide (k ∈ List.range s.length) := by
      intro k hk; simp [inAxis, hk]
    simp only [reduceReads, addressed, axisSet] at *
    rw [map_ndindex_range_all s]
    congr 1
    symm
    rw [List.filter_eq_self]
    intro x hx
    rw [specShape_eq_loop (inAxis none) _ keep s hp] at hj
    rw [proj_eq_loop (inAxis none) _ keep x s.length (mem_allIdx_length hx) hp]
    rw [projL_all (inAxis none) keep s 0 x j (fun _ _ _ => rfl) (mem_allIdx_length hx) hj]
    simp
  | some l =>
    obtain ⟨hval, hnd⟩ := hv
    have hp : ∀ k, k < s.length → inAxis (some (l.map (normAxis s.length))) k = decide (k ∈ l.map (normAxis s.length)) :=
      fun k _ => inAxis_some _ k
    simp only [axisSet] at hj ⊢
    rw [specShape_eq_loop _ _ keep s hp] at hj
    obtain ⟨sl, h1, h3⟩ := slicesL_box_all _ keep s 0 j hj
    simp only [reduceReads, reductionSlices, unwrapAxes, normalizeAxes_eq, if_pos hval, Option.map_some,
      reductionSlicesLoop_eq, List.drop_zero, h1, slicedReads_eq_box_all sl, h3, addressed]
    congr 1
    apply List.filter_congr
    intro x hx
    rw [proj_eq_loop _ _ keep x s.length (mem_allIdx_length hx) hp]

theorem reduceReads_eq_addressed (s : Shape) (_hs : Pos s) (axis : AxisArg) (keep : Bool)
    (hv : ValidAxes s.length axis) (j : Idx) (hj : InShape j (specShape s (axisSet s.length axis) keep)) :
    reduceReads s axis keep j = some (addressed s (axisSet s.length axis) keep j) :=
  reduceReads_eq_addressed_all s axis keep hv j hj

/-! ### accumulate, assembled -/

theorem accumulateElem_eq_reads {α : Type} (op : α → α → α) (a : Arr α) (axis : Int) (d : Idx) :
    accumulateElem op a axis d =
      (accumulateReads a.shape axis d).bind (fun r => foldNumpy none op none (r.map a.get)) := by
  simp only [accumulateElem, accumulateReads]
  cases accumulateSlices (accumulateAxis a.shape.length axis) d 0 a.shape with
  | none => rfl
  | some sl =>
    have hf : slicedFlatElem a sl = fun x => a.get (sliceIndex sl (ndindex (sliceShape sl) x)) := rfl
    simp [flattenReduce_eq, slicedReads, hf, List.map_map, Function.comp_def]

/-- the code's normalisation of the accumulate axis agrees with NumPy's on every accepted axis -/
theorem accumulateAxis_of_valid {n : Nat} {a : Int} (h : ValidAxis n a) :
    accumulateAxis n a = ((normAxis n a : Nat) : Int) := by
  have h1 := normalizeAxis_of_valid h
  unfold ValidAxis at h
  unfold normalizeAxis at h1
  rw [if_pos h, Option.some.injEq] at h1
  rw [← h1]
  unfold accumulateAxis
  by_cases ha : a < 0
  · rw [if_pos ha, if_pos ha]; omega
  · rw [if_neg ha, if_neg ha]; omega

theorem accumulateReads_eq (s : Shape) (axis : Int) (hv : ValidAxis s.length axis) (d : Idx)
    (hd : d.length = s.length) :
    accumulateReads s axis d = accumAddressed (normAxis s.length axis) d := by
  obtain ⟨sl, m, h1, h2, h3, h4⟩ :=
    accL_at (normAxis s.length axis) s 0 (normAxis s.length axis) d (by omega) (normAxis_lt hv) hd
  simp [accumulateReads, accumulateAxis_of_valid hv, accumulateSlices_eq, h1, slicedReads_eq_box sl h2, h4,
    accumAddressed, h3]

theorem reduceReads_ne_nil (s : Shape) (hs : Pos s) (axis : AxisArg) (keep : Bool)
    (hv : ValidAxes s.length axis) (j : Idx) (hj : InShape j (specShape s (axisSet s.length axis) keep)) :
    ∃ r, reduceReads s axis keep j = some r ∧ r ≠ [] := by
  cases axis with
  | none =>
    refine ⟨_, rfl, ?_⟩
    apply List.ne_nil_of_length_pos
    simp only [List.length_map, List.length_range]
    exact prod_pos hs
  | some l =>
    obtain ⟨hval, hnd⟩ := hv
    have hp : ∀ k, k < s.length → inAxis (some (l.map (normAxis s.length))) k = decide (k ∈ l.map (normAxis s.length)) :=
      fun k _ => inAxis_some _ k
    simp only [axisSet] at hj
    rw [specShape_eq_loop _ _ keep s hp] at hj
    obtain ⟨sl, h1, h2, _⟩ := slicesL_box _ keep s 0 j hs hj
    refine ⟨slicedReads sl, ?_, ?_⟩
    · simp only [reduceReads, reductionSlices, unwrapAxes, normalizeAxes_eq, if_pos hval, Option.map_some,
        reductionSlicesLoop_eq, List.drop_zero, h1]
    · apply List.ne_nil_of_length_pos
      simp only [slicedReads, List.length_map, List.length_range]
      exact prod_pos h2

theorem addressed_ne_nil (s : Shape) (hs : Pos s) (axis : AxisArg) (keep : Bool)
    (hv : ValidAxes s.length axis) (j : Idx) (hj : InShape j (specShape s (axisSet s.length axis) keep)) :
    addressed s (axisSet s.length axis) keep j ≠ [] := by
  obtain ⟨r, hr, hne⟩ := reduceReads_ne_nil s hs axis keep hv j hj
  rw [reduceReads_eq_addressed s hs axis keep hv j hj, Option.some.injEq] at hr
  rw [hr]; exact hne

/-! ### a duplicate-free list with the same members -/

def dedupNat : List Nat → List Nat
  | [] => []
  | x :: xs => if x ∈ xs then dedupNat xs else x :: dedupNat xs

theorem mem_dedupNat (k : Nat) : ∀ (l : List Nat), k ∈ dedupNat l ↔ k ∈ l := by
  intro l
  induction l with
  | nil => simp [dedupNat]
  | cons x xs ih =>
    simp only [dedupNat]
    by_cases hx : x ∈ xs
    · rw [if_pos hx, ih, List.mem_cons]
      constructor
      · exact Or.inr
      · rintro (rfl | h)
        · exact hx
        · exact h
    · rw [if_neg hx, List.mem_cons, List.mem_cons, ih]

theorem nodup_dedupNat : ∀ (l : List Nat), (dedupNat l).Nodup := by
  intro l
  induction l with
  | nil => simp [dedupNat]
  | cons x xs ih =>
    simp only [dedupNat]
    by_cases hx : x ∈ xs
    · rw [if_pos hx]; exact ih
    · rw [if_neg hx, List.nodup_cons]
      exact ⟨fun h => hx ((mem_dedupNat x xs).1 h), ih⟩

/-! ### shapes with zero extents -/

theorem PosOn_of_getElem (p : Nat → Bool) :
    ∀ (t : Shape) (i : Nat), (∀ k e, p (i + k) = true → t[k]? = some e → 0 < e) → PosOn p i t := by
  intro t
  induction t with
  | nil => intro _ _; trivial
  | cons a t ih =>
    intro i h
    refine ⟨fun hp => h 0 a (by simpa using hp) (by simp), ih (i+1) ?_⟩
    intro k e hp he
    exact h (k+1) e (by rw [← hp]; congr 1; omega) (by simpa using he)

theorem posAxes_none_iff (s : Shape) : PosAxes s (List.range s.length) ↔ Pos s := by
  constructor
  · intro h x hx
    obtain ⟨k, hk, rfl⟩ := List.getElem_of_mem hx
    exact h k (List.mem_range.2 hk) _ (List.getElem?_eq_getElem hk)
  · intro h k _ e he
    exact h e (List.mem_of_getElem? he)

theorem posAxes_of_pos {s : Shape} (h : Pos s) (R : List Nat) : PosAxes s R :=
  fun _ _ e he => h e (List.mem_of_getElem? he)

/-- reduced extents positive ⇒ something is folded -/
theorem reduceReads_ne_nil_posAxes (s : Shape) (axis : AxisArg) (keep : Bool)
    (hv : ValidAxes s.length axis) (hR : PosAxes s (axisSet s.length axis)) (j : Idx)
    (hj : InShape j (specShape s (axisSet s.length axis) keep)) :
    ∃ r, reduceReads s axis keep j = some r ∧ r ≠ [] := by
  cases axis with
  | none =>
    refine ⟨_, rfl, ?_⟩
    apply List.ne_nil_of_length_pos
    simp only [List.length_map, List.length_range]
    exact prod_pos ((posAxes_none_iff s).1 hR)
  | some l =>
    obtain ⟨hval, hnd⟩ := hv
    have hp : ∀ k, k < s.length → inAxis (some (l.map (normAxis s.length))) k = decide (k ∈ l.map (normAxis s.length)) :=
      fun k _ => inAxis_some _ k
    simp only [axisSet] at hj hR
    rw [specShape_eq_loop _ _ keep s hp] at hj
    obtain ⟨sl, h1, _⟩ := slicesL_box_all _ keep s 0 j hj
    have hpos : PosOn (inAxis (some (l.map (normAxis s.length)))) 0 s := by
      apply PosOn_of_getElem
      intro k e hk he
      rw [Nat.zero_add, inAxis_some] at hk
      exact hR k (by simpa using hk) e he
    have h2 := slicesL_pos _ keep s 0 j sl h1 hpos
    refine ⟨slicedReads sl, ?_, ?_⟩
    · simp only [reduceReads, reductionSlices, unwrapAxes, normalizeAxes_eq, if_pos hval, Option.map_some,
        reductionSlicesLoop_eq, List.drop_zero, h1]
    · apply List.ne_nil_of_length_pos
      simp only [slicedReads, List.length_map, List.length_range]
      exact prod_pos h2

theorem addressed_ne_nil_posAxes (s : Shape) (axis : AxisArg) (keep : Bool)
    (hv : ValidAxes s.length axis) (hR : PosAxes s (axisSet s.length axis)) (j : Idx)
    (hj : InShape j (specShape s (axisSet s.length axis) keep)) :
    addressed s (axisSet s.length axis) keep j ≠ [] := by
  obtain ⟨r, hr, hne⟩ := reduceReads_ne_nil_posAxes s axis keep hv hR j hj
  rw [reduceReads_eq_addressed_all s axis keep hv j hj, Option.some.injEq] at hr
  rw [hr]; exact hne

/-- model = NumPy per element for EVERY shape (extents 0 included), given the identity the functor declares -/
theorem reduceElemId_eq_spec {α : Type} (ident : Option α) (op : α → α → α) (init : Option α) (a : Arr α) (axis : AxisArg)
    (keep : Bool) (hv : ValidAxes a.shape.length axis) (j : Idx)
    (hj : InShape j (specShape a.shape (axisSet a.shape.length axis) keep)) :
    reduceElemId ident op init a axis keep j = specReduceElemId ident op init a (axisSet a.shape.length axis) keep j := by
  rw [reduceElemId_eq_reads, reduceReads_eq_addressed_all a.shape axis keep hv j hj]
  rfl

/-- model = spec per element, for every shape whose reduced extents are positive -/
theorem reduceElem_eq_spec_posAxes {α : Type} (op : α → α → α) (init : Option α) (a : Arr α) (axis : AxisArg)
    (keep : Bool) (hv : ValidAxes a.shape.length axis) (hR : PosAxes a.shape (axisSet a.shape.length axis)) (j : Idx)
    (hj : InShape j (specShape a.shape (axisSet a.shape.length axis) keep)) :
    reduceElem op init a axis keep j = specReduceElem op init a (axisSet a.shape.length axis) keep j := by
  have hne : (addressed a.shape (axisSet a.shape.length axis) keep j).map a.get ≠ [] := by
    simpa using addressed_ne_nil_posAxes a.shape axis keep hv hR j hj
  rw [reduceElem_eq_reads, reduceReads_eq_addressed_all a.shape axis keep hv j hj]
  simp only [Option.bind_some, foldNumpy_of_ne_nil none op init hne]
  rfl

/-- … whatever identity the functor declares -/
theorem reduceElemId_eq_spec_posAxes {α : Type} (ident : Option α) (op : α → α → α) (init : Option α) (a : Arr α)
    (axis : AxisArg) (keep : Bool) (hv : ValidAxes a.shape.length axis)
    (hR : PosAxes a.shape (axisSet a.shape.length axis)) (j : Idx)
    (hj : InShape j (specShape a.shape (axisSet a.shape.length axis) keep)) :
    reduceElemId ident op init a axis keep j = specReduceElem op init a (axisSet a.shape.length axis) keep j := by
  have hne : (addressed a.shape (axisSet a.shape.length axis) keep j).map a.get ≠ [] := by
    simpa using addressed_ne_nil_posAxes a.shape axis keep hv hR j hj
  rw [reduceElemId_eq_spec ident op init a axis keep hv j hj, specReduceElemId, foldNumpy_of_ne_nil ident op init hne]
  rfl

/-- a reduced axis of extent 0 ⇒ nothing is addressed -/
theorem addressed_eq_nil_of_zero_axis (s : Shape) (R : List Nat) (keep : Bool) (j : Idx)
    (h : ¬ PosAxes s R) : addressed s R keep j = [] := by
  have hs : ¬ Pos s := fun hp => h (posAxes_of_pos hp R)
  simp [addressed, allIdx_eq_nil_of_not_pos hs]

theorem inShape_set_le : ∀ (s : Shape) (d : Idx) (ax m x : Nat), InShape d s → d[ax]? = some m → x ≤ m →
    InShape (d.set ax x) s := by
  intro s
  induction s with
  | nil => intro d ax m x h hm; cases d <;> simp_all [InShape]
  | cons a t ih =>
    intro d ax m x h hm hx
    cases d with
    | nil => simp [InShape] at h
    | cons y ys =>
      simp only [InShape] at h
      cases ax with
      | zero =>
        simp only [List.getElem?_cons_zero, Option.some.injEq] at hm
        simp only [List.set_cons_zero, InShape]
        exact ⟨by omega, h.2⟩
      | succ k =>
        simp only [List.getElem?_cons_succ] at hm
        simp only [List.set_cons_succ, InShape]
        exact ⟨h.1, ih ys k m x h.2 hm hx⟩


/-! ### the divisor of `mean` is the number of folded elements -/

/-- product of the extents at the selected positions -/
def prodSel (p : Nat → Bool) : Nat → Shape → Nat
  | _, [] => 1
  | i, s :: ss => (if p i then s else 1) * prodSel p (i+1) ss

theorem slicesL_prod (p : Nat → Bool) (keep : Bool) :
    ∀ (s : Shape) (i : Nat) (d : Idx) (sl : List (Nat × Nat)), slicesL p keep i d s = some sl →
      prod (sliceShape sl) = prodSel p i s := by
  intro s
  induction s with
  | nil => intro i d sl h; simp [slicesL] at h; subst h; rfl
  | cons a t ih =>
    intro i d sl h
    simp only [slicesL] at h
    by_cases hp : p i = true
    · simp only [hp, if_true, Option.map_eq_some_iff] at h
      obtain ⟨sl', h1, rfl⟩ := h
      have := ih _ _ _ h1
      simp only [sliceShape] at this
      simp [sliceShape, prod, prodSel, hp, this]
    · have hp' : p i = false := by simpa using hp
      simp only [hp', Bool.false_eq_true, if_false] at h
      cases d with
      | nil => simp at h
      | cons x d' =>
        simp only [Option.map_eq_some_iff] at h
        obtain ⟨sl', h1, rfl⟩ := h
        have := ih _ _ _ h1
        simp only [sliceShape] at this
        simp [sliceShape, prod, prodSel, hp', this]

theorem perm_filter_range (R : List Nat) (n : Nat) (hnd : R.Nodup) (hlt : ∀ k ∈ R, k < n) :
    R.Perm ((List.range' 0 n).filter (fun k => decide (k ∈ R))) := by
  rw [List.perm_ext_iff_of_nodup hnd ?_]
  · intro a
    simp only [List.mem_filter, List.mem_range', decide_eq_true_eq]
    constructor
    · intro h; exact ⟨⟨a, by have := hlt a h; omega⟩, h⟩
    · exact fun h => h.2
  · rw [← List.range_eq_range']
    exact List.Nodup.sublist List.filter_sublist List.nodup_range

/-- the loop body of `mean_divisor` -/
def divStep (S : Shape) (acc : Option Nat) (k : Nat) : Option Nat :=
  match acc, S[k]? with
  | some d, some e => some (d * e)
  | _, _ => none

theorem meanDivisor_some (S : Shape) (l : List Nat) : meanDivisor S (some l) = l.foldl (divStep S) (some 1) := rfl

theorem divStep_comm (S : Shape) (z : Option Nat) (x y : Nat) :
    divStep S (divStep S z x) y = divStep S (divStep S z y) x := by
  unfold divStep
  cases z <;> cases S[x]? <;> cases S[y]? <;> simp [Nat.mul_right_comm]

theorem foldl_divStep_filter (S : Shape) (p : Nat → Bool) :
    ∀ (t : Shape) (i c : Nat), (∀ r, r < t.length → S[i + r]? = t[r]?) →
      ((List.range' i t.length).filter p).foldl (divStep S) (some c) = some (c * prodSel p i t) := by
  intro t
  induction t with
  | nil => intro i c _; simp [prodSel]
  | cons a u ih =>
    intro i c h
    have h0 : S[i]? = some a := by simpa using h 0 (by simp)
    have h' : ∀ r, r < u.length → S[i + 1 + r]? = u[r]? := by
      intro r hr
      have := h (r+1) (by simp; omega)
      simpa [Nat.add_assoc, Nat.add_comm 1 r] using this
    simp only [List.length_cons, List.range'_succ, List.filter_cons, prodSel]
    by_cases hp : p i = true
    · simp only [hp, if_true, List.foldl_cons, divStep, h0]
      rw [ih (i+1) (c * a) h', Nat.mul_assoc]
    · have hp' : p i = false := by simpa using hp
      simp only [hp', Bool.false_eq_true, if_false]
      rw [ih (i+1) c h', Nat.one_mul]

theorem meanDivisor_eq_prodSel (S : Shape) (R : List Nat) (hnd : R.Nodup) (hlt : ∀ k ∈ R, k < S.length) :
    meanDivisor S (some R) = some (prodSel (fun k => decide (k ∈ R)) 0 S) := by
  rw [meanDivisor_some, (perm_filter_range R S.length hnd hlt).foldl_eq' (fun x _ y _ z => divStep_comm S z x y)]
  rw [foldl_divStep_filter S _ S 0 1 (by intro r _; simp), Nat.one_mul]

theorem addressed_length_all (s : Shape) (l : List Int) (keep : Bool)
    (hv : ValidAxes s.length (some l)) (j : Idx) (hj : InShape j (specShape s (axisSet s.length (some l)) keep)) :
    (addressed s (axisSet s.length (some l)) keep j).length =
      prodSel (fun k => decide (k ∈ axisSet s.length (some l))) 0 s := by
  have hr := reduceReads_eq_addressed_all s (some l) keep hv j hj
  obtain ⟨hval, hnd⟩ := hv
  have hp : ∀ k, k < s.length → inAxis (some (l.map (normAxis s.length))) k = decide (k ∈ l.map (normAxis s.length)) :=
    fun k _ => inAxis_some _ k
  simp only [axisSet] at hj hr ⊢
  rw [specShape_eq_loop _ _ keep s hp] at hj
  obtain ⟨sl, h1, _⟩ := slicesL_box_all _ keep s 0 j hj
  simp only [reduceReads, reductionSlices, unwrapAxes, normalizeAxes_eq, if_pos hval, Option.map_some,
    reductionSlicesLoop_eq, List.drop_zero, h1, Option.some.injEq] at hr
  rw [← hr]
  simp only [slicedReads, List.length_map, List.length_range]
  rw [slicesL_prod _ keep s 0 j sl h1]
  congr 1
  funext k
  exact inAxis_some _ k

theorem addressed_length (s : Shape) (_hs : Pos s) (l : List Int) (keep : Bool)
    (hv : ValidAxes s.length (some l)) (j : Idx) (hj : InShape j (specShape s (axisSet s.length (some l)) keep)) :
    (addressed s (axisSet s.length (some l)) keep j).length =
      prodSel (fun k => decide (k ∈ axisSet s.length (some l))) 0 s :=
  addressed_length_all s l keep hv j hj

theorem prodSel_all (s : Shape) (i : Nat) (p : Nat → Bool) (h : ∀ k, i ≤ k → k < i + s.length → p k = true) :
    prodSel p i s = prod s := by
  induction s generalizing i with
  | nil => rfl
  | cons a t ih =>
    simp only [prodSel, prod, h i (Nat.le_refl _) (by simp), if_true]
    rw [ih (i+1) (fun k h1 h2 => h k (by omega) (by simp; omega))]

/-- re-normalising an already normalised axis list changes nothing -/
theorem normAxis_ofNat {n k : Nat} (h : k < n) : normAxis n (Int.ofNat k) = k := by
  unfold normAxis
  rw [Int.emod_eq_of_lt (by simp) (by simpa using h)]
  simp

theorem validAxes_renorm (n : Nat) (l : List Int) (hv : ValidAxes n (some l)) :
    ValidAxes n (some ((l.map (normAxis n)).map Int.ofNat)) ∧
    axisSet n (some ((l.map (normAxis n)).map Int.ofNat)) = axisSet n (some l) := by
  obtain ⟨hval, hnd⟩ := hv
  have hmap : ((l.map (normAxis n)).map Int.ofNat).map (normAxis n) = l.map (normAxis n) := by
    rw [List.map_map, List.map_map]
    apply List.map_congr_left
    intro a ha
    simp only [Function.comp]
    exact normAxis_ofNat (normAxis_lt (hval a ha))
  refine ⟨⟨?_, by rw [hmap]; exact hnd⟩, by simp only [axisSet]; exact hmap⟩
  intro a ha
  simp only [List.mem_map] at ha
  obtain ⟨k, ⟨b, hb, rfl⟩, rfl⟩ := ha
  have := normAxis_lt (hval b hb)
  unfold ValidAxis
  constructor
  · have : (0 : Int) ≤ Int.ofNat (normAxis n b) := Int.natCast_nonneg _
    omega
  · simpa using this


/-! ### var: helper lemmas -/

theorem projL_inShape (p : Nat → Bool) :
    ∀ (s : Shape) (i : Nat) (x : Idx), InShape x s → InShape (projL p true i x) (removeDimsLoop p true i s) := by
  intro s
  induction s with
  | nil => intro i x h; cases x <;> simp_all [InShape, projL, removeDimsLoop]
  | cons a t ih =>
    intro i x h
    cases x with
    | nil => simp [InShape] at h
    | cons x0 x' =>
      simp only [InShape] at h
      by_cases hp : p i = true
      · simp only [projL, removeDimsLoop, hp, if_true, Bool.not_true, Bool.and_false, Bool.false_eq_true, if_false, InShape]
        exact ⟨by omega, ih (i+1) x' h.2⟩
      · have hp' : p i = false := by simpa using hp
        simp only [projL, removeDimsLoop, hp', Bool.false_and, Bool.false_eq_true, if_false, InShape]
        exact ⟨h.1, ih (i+1) x' h.2⟩

/-- two source indices agree on the keepdims projection iff they agree on the squeezed projection -/
theorem projL_true_iff_false (p : Nat → Bool) :
    ∀ (x y : Idx) (i : Nat), x.length = y.length →
      (projL p true i x = projL p true i y ↔ projL p false i x = projL p false i y) := by
  intro x
  induction x with
  | nil => intro y i h; cases y <;> simp_all [projL]
  | cons x0 x' ih =>
    intro y i h
    cases y with
    | nil => simp at h
    | cons y0 y' =>
      have h' : x'.length = y'.length := by simpa using h
      by_cases hp : p i = true
      · simp only [projL, hp, if_true, Bool.false_eq_true, if_false, List.cons.injEq, true_and]
        exact ih y' (i+1) h'
      · have hp' : p i = false := by simpa using hp
        simp only [projL, hp', Bool.false_eq_true, if_false, List.cons.injEq]
        rw [ih y' (i+1) h']

theorem foldl_optOp_some {α β : Type} (f : α → α → α) (g : β → α) (l : List β) (x : α) :
    (l.map (fun i => some (g i))).foldl (optOp f) (some x) = some ((l.map g).foldl f x) := by
  induction l generalizing x with
  | nil => rfl
  | cons b t ih => simp only [List.map_cons, List.foldl_cons, optOp]; exact ih _

theorem foldFirst_optOp_some {α β : Type} (f : α → α → α) (g : β → α) (l : List β) :
    (foldFirst (optOp f) none (l.map (fun i => some (g i)))).join = foldFirst f none (l.map g) := by
  cases l with
  | nil => rfl
  | cons b t => simp only [List.map_cons, foldFirst, foldl_optOp_some]; rfl

theorem foldFirst_none_cons {α : Type} (f : α → α → α) (l : List α) (h : l ≠ []) :
    ∃ v, foldFirst f none l = some v := by
  cases l with
  | nil => exact absurd rfl h
  | cons x xs => exact ⟨_, rfl⟩

/-- facts about an accepted axis argument used by mean / var: the normalised axis list is accepted again, names the
    same axis set, and `mean_divisor` is the number of elements folded into any result element -/
theorem unwrapAxes_valid_all (s : Shape) (axis : AxisArg) (hv : ValidAxes s.length axis) :
    ∃ ax N, unwrapAxes s.length axis = some ax ∧
      ValidAxes s.length (ax.map (fun l => l.map Int.ofNat)) ∧
      axisSet s.length (ax.map (fun l => l.map Int.ofNat)) = axisSet s.length axis ∧
      meanDivisor s ax = some N ∧
      ∀ keep j, InShape j (specShape s (axisSet s.length axis) keep) →
        (addressed s (axisSet s.length axis) keep j).length = N := by
  cases axis with
  | none =>
    refine ⟨none, prod s, rfl, hv, rfl, rfl, ?_⟩
    intro keep j hj
    have hr := reduceReads_eq_addressed_all s none keep hv j hj
    simp only [reduceReads, Option.some.injEq] at hr
    rw [← hr]; simp
  | some l =>
    obtain ⟨hv', hset⟩ := validAxes_renorm s.length l hv
    have hval := hv.1
    have hlt : ∀ k ∈ l.map (normAxis s.length), k < s.length := by
      intro k hk
      simp only [List.mem_map] at hk
      obtain ⟨b, hb, rfl⟩ := hk
      exact normAxis_lt (hval b hb)
    refine ⟨some (l.map (normAxis s.length)), _, ?_, hv', hset, meanDivisor_eq_prodSel s _ hv.2 hlt, ?_⟩
    · simp only [unwrapAxes, normalizeAxes_eq, if_pos hval, Option.map_some]
    · intro keep j hj
      exact addressed_length_all s l keep hv j hj

theorem unwrapAxes_valid (s : Shape) (_hs : Pos s) (axis : AxisArg) (hv : ValidAxes s.length axis) :
    ∃ ax N, unwrapAxes s.length axis = some ax ∧
      ValidAxes s.length (ax.map (fun l => l.map Int.ofNat)) ∧
      axisSet s.length (ax.map (fun l => l.map Int.ofNat)) = axisSet s.length axis ∧
      meanDivisor s ax = some N ∧
      ∀ keep j, InShape j (specShape s (axisSet s.length axis) keep) →
        (addressed s (axisSet s.length axis) keep j).length = N :=
  unwrapAxes_valid_all s axis hv

/-- `mean` on accepted arguments, reduced extents positive (kept extents arbitrary): shape and elements -/
theorem mean_spec_posAxes {α : Type} (add : α → α → α) (divn : α → Nat → α) (a : Arr α) (axis : AxisArg) (keep : Bool)
    (hv : ValidAxes a.shape.length axis) (hR : PosAxes a.shape (axisSet a.shape.length axis)) :
    ∃ v, mean add divn a axis keep = some v ∧ v.shape = specShape a.shape (axisSet a.shape.length axis) keep ∧
      ∀ j, InShape j v.shape →
        v.get j = (foldFirst add none ((addressed a.shape (axisSet a.shape.length axis) keep j).map a.get)).map
                    (fun x => divn x (addressed a.shape (axisSet a.shape.length axis) keep j).length) := by
  obtain ⟨ax, N, h1, h2, h3, h4, h5⟩ := unwrapAxes_valid_all a.shape axis hv
  refine ⟨⟨specShape a.shape (axisSet a.shape.length axis) keep, fun j =>
    (reduceElem add none a (ax.map (fun l => l.map Int.ofNat)) keep j).map (fun x => divn x N)⟩, ?_, rfl, ?_⟩
  · simp only [mean, h1, h4, reduce, reduceId, reduceElem, removeDims_eq_spec a.shape _ keep h2, h3, Option.map_some]
  · intro j hj
    have hj' : InShape j (specShape a.shape (axisSet a.shape.length (ax.map (fun l => l.map Int.ofNat))) keep) := by
      rw [h3]; exact hj
    show (reduceElem add none a (ax.map (fun l => l.map Int.ofNat)) keep j).map (fun x => divn x N) = _
    have hne : (addressed a.shape (axisSet a.shape.length axis) keep j).map a.get ≠ [] := by
      simpa using addressed_ne_nil_posAxes a.shape axis keep hv hR j hj
    rw [reduceElem_eq_reads, reduceReads_eq_addressed_all a.shape _ keep h2 j hj', h3, h5 keep j hj]
    simp only [Option.bind_some, foldNumpy_of_ne_nil none add none hne]

/-- `mean` on accepted arguments: shape and elements -/
theorem mean_spec {α : Type} (add : α → α → α) (divn : α → Nat → α) (a : Arr α) (axis : AxisArg) (keep : Bool)
    (hs : Pos a.shape) (hv : ValidAxes a.shape.length axis) :
    ∃ v, mean add divn a axis keep = some v ∧ v.shape = specShape a.shape (axisSet a.shape.length axis) keep ∧
      ∀ j, InShape j v.shape →
        v.get j = (foldFirst add none ((addressed a.shape (axisSet a.shape.length axis) keep j).map a.get)).map
                    (fun x => divn x (addressed a.shape (axisSet a.shape.length axis) keep j).length) :=
  mean_spec_posAxes add divn a axis keep hv (posAxes_of_pos hs _)


/-- for a source index `i` of the group of `j`, the keepdims group of `i` is the group of `j` -/
theorem addressed_true_proj (s : Shape) (R : List Nat) (keep : Bool) (j i : Idx)
    (hi : i ∈ addressed s R keep j) :
    addressed s R true (proj R true i) = addressed s R keep j := by
  simp only [addressed, List.mem_filter, beq_iff_eq] at hi
  obtain ⟨hi1, hi2⟩ := hi
  simp only [addressed]
  apply List.filter_congr
  intro x hx
  have hlen : x.length = i.length := by rw [mem_allIdx_length hx, mem_allIdx_length hi1]
  have hp : ∀ k, k < s.length → (fun k => decide (k ∈ R)) k = decide (k ∈ R) := fun _ _ => rfl
  rw [← hi2]
  cases keep with
  | true => rfl
  | false =>
    rw [proj_eq_loop _ R true x s.length (mem_allIdx_length hx) hp,
        proj_eq_loop _ R true i s.length (mem_allIdx_length hi1) hp,
        proj_eq_loop _ R false x s.length (mem_allIdx_length hx) hp,
        proj_eq_loop _ R false i s.length (mem_allIdx_length hi1) hp]
    have := projL_true_iff_false (fun k => decide (k ∈ R)) x i 0 hlen
    rw [Bool.eq_iff_iff]
    simp only [beq_iff_eq]
    exact this

theorem proj_true_inShape (s : Shape) (R : List Nat) (i : Idx) (hi : InShape i s) :
    InShape (proj R true i) (specShape s R true) := by
  have hp : ∀ k, k < s.length → (fun k => decide (k ∈ R)) k = decide (k ∈ R) := fun _ _ => rfl
  rw [proj_eq_loop _ R true i s.length hi.length_eq hp, specShape_eq_loop _ R true s hp]
  exact projL_inShape _ s 0 i hi

theorem var_spec_posAxes {α : Type} (add sub : α → α → α) (sqabs : α → α) (divn : α → Nat → α) (a : Arr α)
    (axis : AxisArg) (ddof : Nat) (keep : Bool) (hv : ValidAxes a.shape.length axis)
    (hR : PosAxes a.shape (axisSet a.shape.length axis)) :
    ∃ v, var add sub sqabs divn a axis ddof keep = some v ∧
      v.shape = specShape a.shape (axisSet a.shape.length axis) keep ∧
      ∀ j, InShape j v.shape →
        v.get j = specVarElem add sub sqabs divn a (axisSet a.shape.length axis) keep ddof j := by
  obtain ⟨ax, N, h1, h2, h3, h4, h5⟩ := unwrapAxes_valid_all a.shape axis hv
  obtain ⟨m, hm1, hm2, hm3⟩ := mean_spec_posAxes add divn a (ax.map (fun l => l.map Int.ofNat)) true h2 (by rw [h3]; exact hR)
  rw [h3] at hm2 hm3
  refine ⟨⟨specShape a.shape (axisSet a.shape.length axis) keep, fun j =>
    ((reduceElem (optOp add) none
      (⟨a.shape, fun i => (m.get (proj (axisSet a.shape.length axis) true i)).map
          (fun mu => sqabs (sub (a.get i) mu))⟩ : Arr (Option α))
      (ax.map (fun l => l.map Int.ofNat)) keep j).join).map (fun x => divn x (N - ddof))⟩, ?_, rfl, ?_⟩
  · simp only [var, h1, hm1, h4, h3, reduce, reduceId, reduceElem]
    rw [removeDims_eq_spec a.shape _ keep h2, h3]
    rfl
  · intro j hj
    have hj' : InShape j (specShape a.shape (axisSet a.shape.length (ax.map (fun l => l.map Int.ofNat))) keep) := by
      rw [h3]; exact hj
    -- the group of j
    obtain ⟨r, hr, hne⟩ := reduceReads_ne_nil_posAxes a.shape axis keep hv hR j hj
    rw [reduceReads_eq_addressed_all a.shape axis keep hv j hj, Option.some.injEq] at hr
    obtain ⟨S, hS⟩ := foldFirst_none_cons add ((addressed a.shape (axisSet a.shape.length axis) keep j).map a.get)
      (by rw [hr]; simpa using hne)
    have hlen := h5 keep j hj
    -- every element of the deviation array inside the group is defined and uses the group's mean
    have hd : ∀ i ∈ addressed a.shape (axisSet a.shape.length axis) keep j,
        (m.get (proj (axisSet a.shape.length axis) true i)).map (fun mu => sqabs (sub (a.get i) mu)) =
          some (sqabs (sub (a.get i) (divn S N))) := by
      intro i hi
      have hiS : InShape i a.shape := mem_allIdx_inShape (List.mem_filter.1 hi).1
      rw [hm3 _ (by rw [hm2]; exact proj_true_inShape a.shape _ i hiS),
          addressed_true_proj a.shape _ keep j i hi, hS, hlen]
      rfl
    show ((reduceElem (optOp add) none _ (ax.map (fun l => l.map Int.ofNat)) keep j).join).map _ = _
    rw [reduceElem_eq_reads, reduceReads_eq_addressed_all a.shape _ keep h2 j hj', h3]
    simp only [Option.bind_some]
    rw [List.map_congr_left hd, foldNumpy_of_ne_nil _ _ _ (by rw [hr]; simpa using hne), foldFirst_optOp_some]
    simp only [specVarElem, hS, Option.bind_some, hlen]

theorem var_spec {α : Type} (add sub : α → α → α) (sqabs : α → α) (divn : α → Nat → α) (a : Arr α)
    (axis : AxisArg) (ddof : Nat) (keep : Bool) (hs : Pos a.shape) (hv : ValidAxes a.shape.length axis) :
    ∃ v, var add sub sqabs divn a axis ddof keep = some v ∧
      v.shape = specShape a.shape (axisSet a.shape.length axis) keep ∧
      ∀ j, InShape j v.shape →
        v.get j = specVarElem add sub sqabs divn a (axisSet a.shape.length axis) keep ddof j :=
  var_spec_posAxes add sub sqabs divn a axis ddof keep hv (posAxes_of_pos hs _)

end NmVerif.Reduce
