// C18 harness (dispatch coverage): EVERY `if constexpr` branch of the public dispatchers utils::isequal / utils::isclose and of
// detail::isequal / detail::isclose, in BOTH operand orders (the answer carries isequal(a,b) AND isequal(b,a)):
//   bare meta::Nothing literal vs maybe (engaged / empty, payload num / index array / fixed index array / ndarray / tuple),
//   Nothing vs Nothing, Nothing vs plain (not accepted: a fail type is returned), maybe vs maybe, maybe vs plain,
//   either vs either, either vs plain, maybe<either>, either<maybe<num>,ndarray> (reaches the maybe branches of detail::*),
//   integral constants vs run-time integers, constant index tuples vs run-time index arrays, tuples, None, Ellipsis, dtype.
//   request: disp fn=<isequal|isclose> ak=<num|ct|idx|idxa|idxc|nd|tup> aw=<wrapper> ad=<data> [as=<shape>]  (same with b)  [eps=<int>]
//   wrapper: plain | just | nothing (empty maybe<kind>) | N (the bare literal) | left | right (either<num,nd>) |
//            jleft | jright | enothing (maybe<either<num,nd>>) | lj | ln | mr (either<maybe<num>,nd>: left engaged / left empty / right)
//   answer : ok <a?b> rev=<b?a>   |   not-accepted (the call returns a fail type or is rejected at compile time)
// Build with -DC18B_ISCLOSE for the isclose flavour (element type double; eps from the request).
#include <cmath>
#include "nmtools/array/ndarray.hpp"
#include "nmtools/utility/isequal.hpp"
#include "nmtools/utility/isclose.hpp"
#include "nmtools/utility/unwrap.hpp"
#include "proto.hpp"
#include <array>
#include <vector>

namespace nm = nmtools; namespace na = nmtools::array; namespace meta = nmtools::meta;
using namespace proto;
#ifdef C18B_ISCLOSE
using elem_t = double;
#else
using elem_t = int;
#endif
using nd_t   = na::ndarray_t<std::vector<elem_t>, std::vector<size_t>>;
using idx_t  = std::vector<int>;
using e_t    = nmtools_either<elem_t, nd_t>;
using me_t   = nmtools_maybe<e_t>;
using em_t   = nmtools_either<nmtools_maybe<elem_t>, nd_t>;
using tup_t  = nmtools_tuple<elem_t, nd_t>;
using nothing_t = meta::remove_cvref_t<decltype(meta::Nothing)>;

static nd_t make_nd(const uvec& s, const std::vector<int>& d) {
    nd_t a; a.resize(s);
    for (size_t k=0;k<d.size() && k<(size_t)nm::size(a);k++) a.data()[k]=(elem_t)d[k];
    return a;
}
static const char* tf(bool b) { return b ? "true" : "false"; }
static double g_eps = 1e-6;

struct Opnd { std::string k, w; uvec s; std::vector<int> d; };
static Opnd opnd(const Args& a, const std::string& p) {
    Opnd o; o.k = get(a,p+"k"); o.w = has(a,p+"w") ? get(a,p+"w") : "plain";
    o.d = intsi(a,p+"d"); if (has(a,p+"s")) o.s = nats(a,p+"s");
    return o;
}

// ---- static description of an operand type: which concepts it can hold (bit 0 num, 1 index array, 2 ndarray, 3 tuple),
// whether it is the bare Nothing, a maybe, and the compile-time length of a fixed index array (0 = none)
template <typename T> struct info { static constexpr int mask = 0; static constexpr int fix = 0; };
template <> struct info<nothing_t> { static constexpr int mask = 16; static constexpr int fix = 0; };
template <> struct info<elem_t> { static constexpr int mask = 1; static constexpr int fix = 0; };
template <auto v> struct info<meta::integral_constant<decltype(v), v>> { static constexpr int mask = 1; static constexpr int fix = 0; };
template <> struct info<e_t> { static constexpr int mask = 5; static constexpr int fix = 0; };
template <> struct info<em_t> { static constexpr int mask = 5; static constexpr int fix = 0; };
template <> struct info<idx_t> { static constexpr int mask = 2; static constexpr int fix = 0; };
template <size_t N> struct info<std::array<int,N>> { static constexpr int mask = 2; static constexpr int fix = (int)N; };
template <typename A, typename B> struct info<nmtools_tuple<A,B>> {
    static constexpr bool cidx = meta::is_integral_constant_v<A> && meta::is_integral_constant_v<B>;
    static constexpr int mask = cidx ? 2 : 8; static constexpr int fix = cidx ? 2 : 0; };
template <> struct info<nd_t> { static constexpr int mask = 4; static constexpr int fix = 0; };
template <typename T> struct info<nmtools_maybe<T>> { static constexpr int mask = info<T>::mask | 32; static constexpr int fix = info<T>::fix; };

// both orders; a fail type (ISEQUAL_UNSUPPORTED / ISCLOSE_UNSUPPORTED) instead of bool = the pairing is not accepted
template <typename A, typename B> static std::string both(const A& x, const B& y) {
#ifdef C18B_ISCLOSE
    auto r1 = nm::utils::isclose(x,y,g_eps); auto r2 = nm::utils::isclose(y,x,g_eps);
#else
    auto r1 = nm::utils::isequal(x,y); auto r2 = nm::utils::isequal(y,x);
#endif
    constexpr bool ok1 = std::is_same_v<decltype(r1),bool>, ok2 = std::is_same_v<decltype(r2),bool>;
    if constexpr (ok1 && ok2) return std::string("ok ") + tf(r1) + " rev=" + tf(r2);
    else if constexpr (!ok1 && !ok2) return "not-accepted";
    else return ok1 ? "ok-only-forward" : "ok-only-reverse";
}

template <typename X, typename Y> static std::string pair_(const X& x, const Y& y) {
    constexpr int mx = info<X>::mask, my = info<Y>::mask;
    constexpr bool xN = (mx & 16) != 0, yN = (my & 16) != 0, xM = (mx & 32) != 0, yM = (my & 32) != 0;
    if constexpr (xN || yN) {
#ifdef C18B_ISCLOSE
        // isclose(Nothing, maybe) does not compile (hard error in detail::isclose); only Nothing/Nothing yields a fail type
        if constexpr (xN && yN) return both(x,y); else return "not-accepted";
#else
        // Nothing vs Nothing, Nothing vs maybe<anything>, Nothing vs plain number (fail type)
        if constexpr ((xN && yN) || xM || yM || std::is_same_v<X,elem_t> || std::is_same_v<Y,elem_t>) return both(x,y);
        else return "not-accepted";
#endif
    }
    else if constexpr (((mx & my) & 15) == 0) return "not-accepted";          // number vs array, tuple vs array ...: rejected at compile time
    else if constexpr (info<X>::fix && info<Y>::fix && info<X>::fix != info<Y>::fix) return "not-accepted";   // static_assert on packed sizes
    else return both(x,y);
}

// visit operand `o` as a C++ value of the right static type and call f(value)
template <typename F> static std::string with_opnd(const Opnd& o, F f) {
    if (o.w=="N") return f(meta::Nothing);
    if (o.k=="num") {
        elem_t v = (elem_t)o.d.at(0);
        if (o.w=="plain") return f(v);
        if (o.w=="just")  { nmtools_maybe<elem_t> m{v}; return f(m); }
        if (o.w=="nothing") { nmtools_maybe<elem_t> m{meta::Nothing}; return f(m); }
        if (o.w=="left")  { e_t e{v}; return f(e); }
        if (o.w=="jleft") { me_t m{e_t{v}}; return f(m); }
        if (o.w=="enothing") { me_t m{meta::Nothing}; return f(m); }
        if (o.w=="lj")    { em_t e{nmtools_maybe<elem_t>{v}}; return f(e); }
        if (o.w=="ln")    { em_t e{nmtools_maybe<elem_t>{meta::Nothing}}; return f(e); }
    }
#ifndef C18B_ISCLOSE
    else if (o.k=="ct") {       // integral constant
        if (o.w!="plain") return "unsupported";
        switch (o.d.at(0)) { case 0: return f(meta::ct_v<0>); case 3: return f(meta::ct_v<3>); default: return "unsupported"; }
    } else if (o.k=="idx") {
        idx_t v = o.d;
        if (o.w=="plain") return f(v);
        if (o.w=="just")  { nmtools_maybe<idx_t> m{v}; return f(m); }
        if (o.w=="nothing") { nmtools_maybe<idx_t> m{meta::Nothing}; return f(m); }
    } else if (o.k=="idxa") {   // fixed-length index array
        switch (o.d.size()) {
#define CASE(N) case N: { std::array<int,N> v{}; for (size_t i=0;i<N;i++) v[i]=o.d[i]; if (o.w=="plain") return f(v); \
                if (o.w=="just") { nmtools_maybe<std::array<int,N>> m{v}; return f(m); } \
                if (o.w=="nothing") { nmtools_maybe<std::array<int,N>> m{meta::Nothing}; return f(m); } break; }
            CASE(2) CASE(3)
#undef CASE
            default: return "unsupported";
        }
    } else if (o.k=="idxc") {   // constant index array (tuple of integral constants), length 2
        if (o.w!="plain" || o.d.size()!=2) return "unsupported";
        if (o.d[0]==0 && o.d[1]==1) return f(nmtools_tuple{meta::ct_v<0>, meta::ct_v<1>});
        if (o.d[0]==1 && o.d[1]==1) return f(nmtools_tuple{meta::ct_v<1>, meta::ct_v<1>});
        return "unsupported";
    }
#endif
    else if (o.k=="nd") {
        nd_t v = make_nd(o.s, o.d);
        if (o.w=="plain") return f(v);
        if (o.w=="just")  { nmtools_maybe<nd_t> m{v}; return f(m); }
        if (o.w=="nothing") { nmtools_maybe<nd_t> m{meta::Nothing}; return f(m); }
        if (o.w=="right") { e_t e{v}; return f(e); }
        if (o.w=="jright") { me_t m{e_t{v}}; return f(m); }
        if (o.w=="mr")    { em_t e{v}; return f(e); }
    } else if (o.k=="tup") {    // tuple (number, ndarray): first datum is the number, the rest the 1-d array
        nd_t r = make_nd(uvec{o.d.size()-1}, std::vector<int>(o.d.begin()+1, o.d.end()));
        tup_t t{(elem_t)o.d.at(0), r};
        if (o.w=="plain") return f(t);
#ifndef C18B_ISCLOSE        // detail::isclose has no tuple branch: a maybe<tuple> does not compile there
        if (o.w=="just")  { nmtools_maybe<tup_t> m{t}; return f(m); }
        if (o.w=="nothing") { nmtools_maybe<tup_t> m{meta::Nothing}; return f(m); }
#endif
    }
    return "unsupported";
}

std::string handle(const std::string& op, const Args& a) {
    if (op=="disp") {
        Opnd x = opnd(a,"a"), y = opnd(a,"b");
        g_eps = has(a,"eps") ? (double)integer(a,"eps") : 1e-6;
        return with_opnd(x, [&](const auto& xv){
            return with_opnd(y, [&](const auto& yv) -> std::string {
                return pair_(xv, yv);
            });
        });
    }
#ifndef C18B_ISCLOSE
    if (op=="disp_misc") {      // branches without run-time content
        std::string w = get(a,"what");
        if (w=="none") return both(nm::None, nm::None);
        if (w=="ellipsis") return both(nm::Ellipsis, nm::Ellipsis);
        if (w=="dtype-same") return std::string("ok ") + tf(nm::utils::isequal(nm::float32, nm::float32)) + " rev=" + tf(nm::utils::isequal(nm::float32, nm::float32));
        if (w=="dtype-diff") return std::string("ok ") + tf(nm::utils::isequal(nm::float32, nm::int32)) + " rev=" + tf(nm::utils::isequal(nm::int32, nm::float32));
        return "unsupported";
    }
#else
    if (op=="disp_misc") {
        std::string w = get(a,"what");
        if (w=="none") return both(nm::None, nm::None);
        return "unsupported";
    }
#endif
    return "unknown-op";
}
