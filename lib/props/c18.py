"""C18 — isequal / isclose are exact comparison oracles. IMPL: nmtools::utils::isequal / isclose."""
import itertools
from runner import Case
from shapes import shapes, prod, fmt

ID = 'C18'
LEVEL = 'proof'
RULE = ('all ordered pairs of ndarray operands of rank 1..3, extents 1..E (same shape: identical data and a perturbation at every '
        'position; same size/different shape; different size: common prefix data), index arrays (dynamic and fixed length, prefix / longer), '
        'numbers, optionals (empty/non-empty on either side), eithers (left=num, right=ndarray), tuples, views (double transpose); '
        'dispatch coverage (op disp, both operand orders in one answer): all pairs over {bare Nothing literal, number, integral constant, '
        'index array (dynamic / fixed / constant tuple), ndarray, tuple} x {plain, engaged / empty optional, either alternative, '
        'optional of either, either of optional} that compile, for isequal and for isclose with eps 8 / 1 / default; '
        'NDEBUG and assert-enabled sanitizer builds. non-trivial = operands differ in shape, length, wrapper or exactly one element')
EXHAUSTIVE = {'quick': True, 'thorough': True}
ANCHORS = {'NmVerif.IsEqual.isequal': 'nmtools::utils::isequal (utility/isequal.hpp)', 'NmVerif.IsEqual.isclose': 'nmtools::utils::isclose over optionals / eithers / tuples (utility/isclose.hpp:147-350)', 'NmVerif.IsEqual.iscloseNd': 'nmtools::utils::isclose (utility/isclose.hpp)'}
MANIFEST = dict(
    text='Proof: Lean theorems that the model of isequal/isclose is exactly "same dimension and shape and all elements equal (resp. closer than eps)", total (never reads outside an operand for ANY pair of shapes), symmetric, reflexive, and treats optionals/eithers/tuples as the property states; the model is tied to utility/isequal.hpp and isclose.hpp by an exhaustive small-scope differential run (NDEBUG build and assert+ASan+UBSan build) on every check.',
    note='Lean kernel + propext/Classical.choice/Quot.sound. Which isequal branch is taken is a compile-time fact of the operand types: modelled by the Val constructors, validated by the harness pairings (fixed/raw array kinds are in C09). Element type modelled as Int; isclose arithmetic is exact integers in double.',
    technique='Lean 4 functional-induction proofs over the operand grammar + C01 round-trip lemma; differential correspondence incl. sanitizer build')
ASSUMPTIONS = ['element comparison of the C++ (== on a promoted common type) is equality on the mathematical values for the int data used',
               'compile-time rejected pairings (different tuple sizes, number vs array) are not run-time behaviour']
PARTIAL = []

EITHER_W = ('left', 'right', 'jleft', 'jright', 'lj', 'ln', 'mr')


KNOWN_PREDICATES = {}


def harness_specs(tier):
    sp = [dict(name='h_c18b', src='h_c18b.cpp', flavour='fast'), dict(name='h_c18b_sandbg', src='h_c18b.cpp', flavour='san-dbg'),
          dict(name='h_c18c', src='h_c18b.cpp', flavour='fast', extra=('-DC18B_ISCLOSE',)),
          dict(name='h_c18c_sandbg', src='h_c18b.cpp', flavour='san-dbg', extra=('-DC18B_ISCLOSE',))]
    sp += [dict(name='h_c18', src='h_c18.cpp', flavour='fast'),
          dict(name='h_c18_sandbg', src='h_c18.cpp', flavour='san-dbg'),
          dict(name='h_c18a', src='h_c18a.cpp', flavour='fast'), dict(name='h_c18a_sandbg', src='h_c18a.cpp', flavour='san-dbg')]
    if tier == 'thorough':
        sp += [dict(name='h_c18_dbg', src='h_c18.cpp', flavour='dbg'), dict(name='h_c18_san', src='h_c18.cpp', flavour='san')]
    return sp


def tf(b):
    return 'ok true' if b else 'ok false'


# ---- dispatch coverage (harness/h_c18b.cpp): operands are (kind, wrapper, data, shape)
CONCEPT = {'num': 1, 'ct': 1, 'idx': 2, 'idxa': 2, 'idxc': 2, 'nd': 4, 'tup': 8}


def d_mask(o):
    k, w = o[0], o[1]
    if w == 'N':
        return 16
    m = 5 if (w in EITHER_W or w == 'enothing') else CONCEPT[k]
    return m | (32 if w in ('just', 'nothing', 'jleft', 'jright', 'enothing') else 0)


def d_fix(o):
    return len(o[2]) if o[0] in ('idxa', 'idxc') and o[1] != 'N' else 0


def d_value(o):
    """what the operand holds: None (nothing at all) or (concept, payload)"""
    k, w, d, s = o
    if w in ('N', 'nothing', 'enothing', 'ln'):
        return None
    if CONCEPT[k] == 1:
        return (1, d[0])
    if CONCEPT[k] == 2:
        return (2, tuple(d))
    if k == 'nd':
        return (4, tuple(s), tuple(d))
    return (8, d[0], tuple(d[1:]))


def d_fmt(o, p):
    k, w, d, s = o
    return '%sk=%s %sw=%s %sd=%s' % (p, k, p, w, p, fmt(d)) + (' %ss=%s' % (p, fmt(s)) if k == 'nd' else '')


def d_accepted(fn, x, y):
    """True: the call compiles and returns bool; False: the LIBRARY answers with its fail type (ISEQUAL_UNSUPPORTED);
    None: the pairing is rejected at compile time (static_assert / hard error) - the harness does not instantiate it"""
    mx, my = d_mask(x), d_mask(y)
    if (mx | my) & 16:
        if mx & my & 16:
            return False                # Nothing vs Nothing: fail type (isequal and isclose)
        if fn == 'isclose':
            return None                 # isclose(Nothing, maybe) is a hard error
        if (mx | my) & 32:
            return True                 # Nothing vs maybe: accepted
        return False if 'plain' in (x[1], y[1]) and 'num' in (x[0] if x[1] == 'plain' else y[0],) else None
    if not (mx & my & 15):
        return None
    if d_fix(x) and d_fix(y) and d_fix(x) != d_fix(y):
        return None
    return True


def d_close(u, v, eps):
    """reference: same concept, same shape, every element difference below eps (eps None: equality)"""
    if u[0] != v[0]:
        return False
    near = (lambda p, q: p == q) if eps is None else (lambda p, q: abs(p - q) < eps)
    if u[0] == 1:
        return near(u[1], v[1])
    if u[0] == 2:
        return len(u[1]) == len(v[1]) and all(near(p, q) for p, q in zip(u[1], v[1]))
    if u[0] == 4:
        return u[1] == v[1] and all(near(p, q) for p, q in zip(u[2], v[2]))
    return near(u[1], v[1]) and len(u[2]) == len(v[2]) and all(near(p, q) for p, q in zip(u[2], v[2]))


def d_oracle(fn, x, y, eps):
    """'not-accepted' | 'ok <r> rev=<r>' (the reference is symmetric by construction) | None (no reference meaning)"""
    acc = d_accepted(fn, x, y)
    if acc is None:
        return 'skip'
    if not acc:
        return 'not-accepted'
    u, v = d_value(x), d_value(y)
    if u is None or v is None:
        # an either HOLDING an empty optional against an empty optional: the property text does not say; the model is the judge
        if (x[1] == 'ln') != (y[1] == 'ln') and u is None and v is None:
            return None
        r = (u is None and v is None)
    else:
        r = d_close(u, v, eps if fn == 'isclose' else None)
    return 'ok %s rev=%s' % (('true', 'true') if r else ('false', 'false'))


def gen_disp(tier):
    hs_eq = ['h_c18b', 'h_c18b_sandbg']
    hs_cl = ['h_c18c', 'h_c18c_sandbg']
    N = ('num', 'N', [0], [])
    # ---------------- isequal
    ops = [N]
    for v in (0, 3):
        ops += [('num', w, [v], []) for w in ('plain', 'just', 'nothing', 'left', 'jleft', 'enothing', 'lj', 'ln')] + [('ct', 'plain', [v], [])]
    for l in ([0, 1], [1, 1], [0, 1, 2]):
        ops += [(k, w, l, []) for k in ('idx', 'idxa') for w in ('plain', 'just', 'nothing')]
        if len(l) == 2:
            ops.append(('idxc', 'plain', l, []))
    for s, d in (([2], [0, 3]), ([2], [0, 4]), ([1, 2], [0, 3]), ([2, 1], [0, 3])):
        ops += [('nd', w, d, s) for w in ('plain', 'just', 'nothing', 'right', 'jright', 'mr')]
    for d in ([1, 2, 3], [1, 2, 4], [2, 2, 3], [1, 2]):
        ops += [('tup', w, d, []) for w in ('plain', 'just', 'nothing')]
    n = 0
    for i, x in enumerate(ops):
        for y in ops[i:] if tier == 'quick' else ops:
            orc = d_oracle('isequal', x, y, None)
            if orc == 'skip':
                continue
            n += 1
            for hh in (hs_eq if (tier != 'quick' or 'N' in (x[1], y[1])) else [hs_eq[n % 2]]):
                yield Case('disp fn=isequal %s %s' % (d_fmt(x, 'a'), d_fmt(y, 'b')), hh, oracle=orc,
                           nontrivial=(orc != 'not-accepted'), tags=['dispatch', 'isequal', 'a=' + x[1], 'b=' + y[1], 'k=%s/%s' % (x[0], y[0])] +
                           (['nothing-literal'] if 'N' in (x[1], y[1]) else []))
    for what in ('none', 'ellipsis', 'dtype-same', 'dtype-diff'):
        for hh in hs_eq:
            yield Case('disp_misc what=' + what, hh, oracle='ok false rev=false' if what == 'dtype-diff' else 'ok true rev=true', model=False, tags=['dispatch', 'misc'])
    for hh in hs_cl:
        yield Case('disp_misc what=none', hh, oracle='ok true rev=true', model=False, tags=['dispatch', 'misc'])
    # ---------------- isclose (element type double, integer-valued data)
    ops = [N]
    for v in (3, 5, 20):
        ops += [('num', w, [v], []) for w in ('plain', 'just', 'nothing', 'left', 'jleft', 'enothing', 'lj', 'ln')]
    for s, d in (([2], [3, 4]), ([2], [5, 5]), ([2], [3, 30]), ([1, 2], [3, 4])):
        ops += [('nd', w, d, s) for w in ('plain', 'just', 'nothing', 'right', 'jright', 'mr')]
    for d in ([3, 1, 2], [5, 2, 3], [3, 1, 30], [3, 1]):
        ops.append(('tup', 'plain', d, []))
    for i, x in enumerate(ops):
        for y in ops[i:] if tier == 'quick' else ops:
            for eps in (8, 1, None):
                req = 'disp fn=isclose %s %s' % (d_fmt(x, 'a'), d_fmt(y, 'b')) + (' eps=%d' % eps if eps is not None else '')
                orc = d_oracle('isclose', x, y, eps if eps is not None else 1)
                if orc == 'skip':
                    continue
                c = Case(req, hs_cl[0], oracle=orc, nontrivial=(orc != 'not-accepted'),
                         tags=['dispatch', 'isclose', 'a=' + x[1], 'b=' + y[1], 'eps=%s' % eps])
                # incl. the either-vs-plain branches, which dropped the tolerance before the fix commit (former finding
                # isclose.either-plain-eps; regression: isclose_either_plain_regression)
                yield c
                n += 1
                if tier != 'quick' or n % 3 == 0:
                    c2 = Case(req, hs_cl[1], oracle=orc, nontrivial=(orc != 'not-accepted'), tags=list(c.tags))
                    yield c2


def gen(tier, rng):
    E = 3 if tier == 'quick' else 4
    hs = [s['name'] for s in harness_specs(tier) if s['src'] == 'h_c18.cpp']
    shp = list(shapes(3, E, min_rank=1))
    # ---- every branch of the dispatchers, both operand orders (seeded change C18-4: bare Nothing literal on the left)
    yield from gen_disp(tier)
    # ---- ndarray pairs
    for i, s1 in enumerate(shp):
        n1 = prod(s1)
        d1 = list(range(1, n1 + 1))
        for s2 in shp:
            n2 = prod(s2)
            variants = []
            if s1 == s2:
                variants.append((d1, True))
                for k in range(n1):
                    d2 = list(d1); d2[k] += 7
                    variants.append((d2, False))
            else:
                # same flat data as far as it goes: only the shape/size check can tell them apart
                variants.append(([((k % n1) + 1) for k in range(n2)], False))
            for d2, eq in variants:
                h = hs[(i + len(d2)) % len(hs)] if len(variants) > 1 else None
                for hh in ([h] if h else hs):
                    tags = ['nd', 'same-shape' if s1 == s2 else ('same-size' if n1 == n2 else ('same-rank' if len(s1) == len(s2) else 'diff-rank'))]
                    yield Case('isequal ak=nd as=%s ad=%s bk=nd bs=%s bd=%s' % (fmt(s1), fmt(d1), fmt(s2), fmt(d2)), hh, oracle=tf(eq),
                               nontrivial=(s1 != s2 or not eq), tags=tags + [hh])
                # mixed static knowledge of the dimension: fixed-dim (std::array shape), bounded-dim (static_vector shape), dynamic
                if len(variants) == 1 or d2 is variants[0][0] or d2 is variants[-1][0]:
                    combos = [('ndf', 'nd'), ('nd', 'ndf'), ('ndf', 'ndb'), ('ndb', 'nd'), ('ndf', 'ndf'), ('ndb', 'ndf')]
                    ka, kb = combos[(i + len(s2) + n2) % len(combos)]
                    for (xa, xb) in ((ka, kb), combos[(i + n2 + 1) % len(combos)]):
                        yield Case('isequal ak=%s as=%s ad=%s bk=%s bs=%s bd=%s' % (xa, fmt(s1), fmt(d1), xb, fmt(s2), fmt(d2)), hs[(i + n2) % len(hs)], oracle=tf(eq),
                                   mreq='isequal ak=nd as=%s ad=%s bk=nd bs=%s bd=%s' % (fmt(s1), fmt(d1), fmt(s2), fmt(d2)),
                                   nontrivial=(s1 != s2 or not eq), tags=tags + ['mixed-dim-kind', xa + '/' + xb])
                if s1 == s2 or n1 == n2:
                    # isclose with eps 8: perturbation 7 is close, shape mismatch is not
                    close = (s1 == s2)
                    yield Case('isclose as=%s ad=%s bs=%s bd=%s eps=8' % (fmt(s1), fmt(d1), fmt(s2), fmt(d2)), hs[0], oracle=tf(close), tags=['isclose'] + tags)
                    yield Case('isclose as=%s ad=%s bs=%s bd=%s eps=7' % (fmt(s1), fmt(d1), fmt(s2), fmt(d2)), hs[-1], oracle=tf(close and eq), tags=['isclose'] + tags)
    # ---- isclose on non-finite elements (seeded change C18-2): the difference of two infinities of one sign is NaN, of opposite
    # signs infinite, anything with NaN is NaN - none of them is below eps, so every such pair is NOT close (the opt-in
    # NMTOOLS_ISCLOSE_INF_HANDLING / NAN_HANDLING switches are off by default).  9001 = +inf, 9002 = -inf, 9003 = NaN.
    specials = [(9001, 9001), (9001, 9002), (9002, 9001), (9002, 9002), (9003, 9003), (9001, 5), (5, 9002), (9003, 5), (5, 9003), (9001, 9003)]
    for s1 in [s for s in shp if prod(s) <= 6]:
        n1 = prod(s1); d1 = list(range(1, n1 + 1))
        for k in (0, n1 - 1):
            for (u, v) in specials:
                da = list(d1); db = list(d1); da[k] = u; db[k] = v
                for hh in hs:
                    yield Case('isclose as=%s ad=%s bs=%s bd=%s eps=8' % (fmt(s1), fmt(da), fmt(s1), fmt(db)), hh, oracle=tf(False), model=False,
                               tags=['isclose', 'non-finite'])
    for (u, v) in specials + [(3, 3), (3, 10), (3, 12)]:
        for w in ('plain', 'just', 'tuple'):
            exp = (abs(u - v) < 8) if max(u, v) < 9000 else False
            for hh in hs:
                yield Case('isclose_num ad=%d bd=%d eps=8 w=%s' % (u, v, w), hh, oracle=tf(exp), model=False, tags=['isclose', 'num', 'non-finite' if max(u, v) >= 9000 else 'finite'])
    # ---- apply_isequal / apply_isclose over sequences of arrays: every pairing of container kinds (list / fixed-length array /
    # tuple) in BOTH operand orders, equal and different lengths, a perturbed entry at every position (seeded change C18-3:
    # the list-vs-fixed branch looped over the wrong operand's static length and compared nothing)
    for fn in ('isequal', 'isclose'):
        for lk, rk in itertools.product(('vec', 'arr', 'tup'), repeat=2):
            for n in (1, 2, 3):
                for m in (1, 2, 3):
                    if lk != 'vec' and rk != 'vec' and n != m:
                        continue            # two fixed-length containers of different lengths do not instantiate
                    for diff in [-1] + list(range(m)):
                        for pos in ((0,) if diff < 0 else (0, 1)):
                            exp = (n == m) and (diff < 0 or diff >= n)
                            for hh in ('h_c18a', 'h_c18a_sandbg'):
                                yield Case('apply_eq fn=%s lk=%s rk=%s n=%d m=%d diff=%d pos=%d' % (fn, lk, rk, n, m, diff, pos), hh, oracle=tf(exp), model=False,
                                           nontrivial=True, tags=['apply_' + fn, 'kinds=%s/%s' % (lk, rk), 'equal' if exp else 'different'])
    # ---- wrappers on a sample of nd pairs
    small = [s for s in shp if prod(s) <= 6]
    for s1 in small:
        d1 = list(range(1, prod(s1) + 1))
        for s2 in small:
            d2 = [((k % len(d1)) + 1) for k in range(prod(s2))]
            base_eq = (s1 == s2)
            for aw, bw in itertools.product(['plain', 'just', 'nothing', 'right'], repeat=2):
                if (aw in ('just', 'nothing') and bw == 'right') or (bw in ('just', 'nothing') and aw == 'right'):
                    continue
                if aw == 'nothing' and bw == 'nothing':
                    eq = True
                elif aw == 'nothing' or bw == 'nothing':
                    eq = False
                else:
                    eq = base_eq
                for hh in hs:
                    yield Case('isequal ak=nd as=%s ad=%s aw=%s bk=nd bs=%s bd=%s bw=%s' % (fmt(s1), fmt(d1), aw, fmt(s2), fmt(d2), bw), hh,
                               oracle=tf(eq), tags=['wrapped', 'a=' + aw, 'b=' + bw])
            # view operand
            for hh in hs:
                yield Case('isequal ak=ndv as=%s ad=%s bk=nd bs=%s bd=%s' % (fmt(s1), fmt(d1), fmt(s2), fmt(d2)), hh, oracle=tf(base_eq),
                           mreq='isequal ak=nd as=%s ad=%s bk=nd bs=%s bd=%s' % (fmt(s1), fmt(d1), fmt(s2), fmt(d2)), tags=['view-operand'])
                yield Case('isequal ak=nd as=%s ad=%s bk=ndv bs=%s bd=%s' % (fmt(s2), fmt(d2), fmt(s1), fmt(d1)), hh, oracle=tf(base_eq),
                           mreq='isequal ak=nd as=%s ad=%s bk=nd bs=%s bd=%s' % (fmt(s2), fmt(d2), fmt(s1), fmt(d1)), tags=['view-operand'])
    # ---- either: left = number, right = ndarray
    for v in (0, 3):
        for aw, bw in [('left', 'left'), ('left', 'plain'), ('plain', 'left')]:
            for w in (v, v + 1):
                for hh in hs:
                    yield Case('isequal ak=num ad=%d aw=%s bk=num bd=%d bw=%s' % (v, aw, w, bw), hh, oracle=tf(v == w), tags=['either-num'])
        for hh in hs:
            # left(num) vs right(nd), left(num) vs plain nd: different alternatives / concepts -> false
            yield Case('isequal ak=num ad=%d aw=left bk=nd bs=1 bd=%d bw=right' % (v, v), hh, oracle=tf(False), tags=['either-mixed'])
            yield Case('isequal ak=nd as=1 ad=%d aw=right bk=num bd=%d bw=left' % (v, v), hh, oracle=tf(False), tags=['either-mixed'])
            yield Case('isequal ak=num ad=%d aw=left bk=nd bs=1 bd=%d' % (v, v), hh, oracle=tf(False), tags=['either-mixed'])
            yield Case('isequal ak=nd as=1 ad=%d bk=num bd=%d bw=left' % (v, v), hh, oracle=tf(False), tags=['either-mixed'])
    # ---- numbers, optionals of numbers
    for x, y in itertools.product((-1, 0, 2), repeat=2):
        for aw, bw in itertools.product(['plain', 'just', 'nothing'], repeat=2):
            eq = True if (aw == 'nothing' and bw == 'nothing') else (False if 'nothing' in (aw, bw) else x == y)
            yield Case('isequal ak=num ad=%d aw=%s bk=num bd=%d bw=%s' % (x, aw, y, bw), hs[(x + y) % len(hs)], oracle=tf(eq), tags=['num'])
    # ---- index arrays: all pairs of lists over {0,1,2} with length 1..L, dynamic and fixed kinds
    L = 3 if tier == 'quick' else 4
    lists = [list(t) for n in range(1, L + 1) for t in itertools.product((0, 1, 2) if tier == 'quick' else (0, 1), repeat=n)]
    for la in lists:
        for lb in lists:
            eq = (la == lb)
            if len(la) == len(lb) and not eq and sum(1 for p, q in zip(la, lb) if p != q) > 1:
                continue
            for ka, kb in [('idx', 'idx'), ('idxa', 'idx'), ('idx', 'idxa'), ('idxa', 'idxa')]:
                if ka == 'idxa' and kb == 'idxa' and len(la) != len(lb):
                    continue      # rejected at compile time (static_assert on packed sizes)
                hh = hs[(len(la) + 2 * len(lb) + (ka == 'idxa')) % len(hs)]
                yield Case('isequal ak=%s ad=%s bk=%s bd=%s' % (ka, fmt(la), kb, fmt(lb)), hh, oracle=tf(eq),
                           mreq='isequal ak=idx ad=%s bk=idx bd=%s' % (fmt(la), fmt(lb)),
                           tags=['index-array', 'same-len' if len(la) == len(lb) else ('a-shorter' if len(la) < len(lb) else 'a-longer'), ka + '/' + kb])
            for aw, bw in [('just', 'plain'), ('plain', 'just'), ('just', 'just'), ('nothing', 'just'), ('just', 'nothing'), ('nothing', 'plain'), ('plain', 'nothing')]:
                e2 = False if 'nothing' in (aw, bw) else eq
                yield Case('isequal ak=idx ad=%s aw=%s bk=idx bd=%s bw=%s' % (fmt(la), aw, fmt(lb), bw), hs[len(la) % len(hs)], oracle=tf(e2), tags=['index-array', 'maybe'])
            # tuples (number, index array)
            for x, y in ((1, 1), (1, 2)):
                yield Case('isequal_tup an=%d ad=%s bn=%d bd=%s' % (x, fmt(la), y, fmt(lb)), hs[(x + y + len(lb)) % len(hs)], oracle=tf(eq and x == y), tags=['tuple'])
