import NmVerif.Index.Take
/-
  NmVerif.Index.Compress — MODEL of include/nmtools/array/index/compress.hpp (+ view/compress.hpp).
  `compress(cond, a, axis)` is `take(a, nonzero(cond), axis)`: `shape_compress` / `compress` have the same loops as
  `shape_take` / `take` with `indices := where(nonzero, cond)` (including the axis normalisation
  `a < 0 ? a + len(shape) : a`, repaired: "compress.negative-axis").

  Stable names:
    `Index.nonzeroIdx cond : List Nat`                       index::nonzero / where(fun_nonzero, condition)
    `Index.compressView src cond axis : Option IxView`       view::compress(cond, a, axis)   (`axis : Option Int`)
  Core Lean only.
-/
namespace NmVerif.Index

def nonzeroIdxAux : Nat → List Int → List Nat
  | _, [] => []
  | i, c :: cs => if c ≠ 0 then i :: nonzeroIdxAux (i + 1) cs else nonzeroIdxAux (i + 1) cs

def nonzeroIdx (cond : List Int) : List Nat := nonzeroIdxAux 0 cond

def compressView (src : Shape) (cond : List Int) (axis : Option Int) : Option IxView :=
  takeView src ((nonzeroIdx cond).map Int.ofNat) axis

end NmVerif.Index
