import NmVerif.Static
import NmVerif.StaticMore
import NmVerif.StaticEval
import NmVerif.Lemmas.Static
import NmVerif.Lemmas.StaticMore
import NmVerif.StaticGen
import NmVerif.Lemmas.StaticGen
/-
  C11 — statically inferred shape, size and bounds agree with every run-time instance.

  `SInfo` (NmVerif.Static) is the compile-time knowledge the library attaches to an array / view TYPE; `i.γ s` says that
  the run-time shape `s` is an instance of it.  For every modelled view function the library's metafunctions compute
  the knowledge of the result type from the knowledge of the operand types (`transferX`).  The theorems below say:

    * `traits_sound`        whatever the five traits report about a type is true of every instance:
                            fixed shape / dim / size are exact, bounded dim / size are upper bounds;
    * `X_static_sound`      each transfer function is sound: if the operand shapes are instances of the operand
                            knowledge and the operation (NumPy reference shape function) yields `t`, then `t` is an
                            instance of the inferred knowledge — for ALL shapes, ranks and arguments;
    * `result_buffer_fits`  consequently a buffer of `bounded_size` (or `fixed_size`) elements holds the whole result;
    (the three metafunctions that were unsound for clipped shapes — broadcast_shape, shape_take, shape_squeeze — were
    repaired in /repo; the transfer functions mirror the repaired code and carry no kind side conditions)
-/
namespace NmVerif.Props.C11
open NmVerif NmVerif.Static

/-! ## the five traits -/

/-- What `meta::fixed_shape_v / fixed_dim_v / fixed_size_v / bounded_dim_v / bounded_size_v` report is true of every
    run-time instance of the type. -/
theorem traits_sound {i : SInfo} {s : Shape} (h : i.γ s) :
    (∀ l, i.fixedShape = some l → s = l) ∧
    (∀ k, i.fixedDim = some k → s.length = k) ∧
    (∀ k, i.boundedDim = some k → s.length ≤ k) ∧
    (∀ n, i.fixedSize = some n → prod s = n) ∧
    (∀ n, i.boundedSize = some n → prod s ≤ n) := by
  obtain ⟨hs, hz⟩ := h
  have hlen : ∀ k, i.shape.len? = some k → s.length = k := by
    intro k hk
    cases hsh : i.shape with
    | const l => simp [hsh, ShapeK.len?] at hk; simp only [hsh, ShapeK.γ] at hs; subst hs; exact hk
    | clipped b => simp [hsh, ShapeK.len?] at hk; simp only [hsh, ShapeK.γ] at hs; rw [hs.length_eq]; exact hk
    | fixedDim n => simp [hsh, ShapeK.len?] at hk; simp only [hsh, ShapeK.γ] at hs; omega
    | boundedDim n => simp [hsh, ShapeK.len?] at hk
    | dyn => simp [hsh, ShapeK.len?] at hk
  refine ⟨?_, hlen, ?_, ?_, ?_⟩
  · intro l hl
    cases hsh : i.shape <;> simp [SInfo.fixedShape, hsh] at hl
    simp only [hsh, ShapeK.γ] at hs; subst hl; exact hs
  · intro k hk
    cases hsh : i.shape with
    | boundedDim n => simp [SInfo.boundedDim, hsh] at hk; simp only [hsh, ShapeK.γ] at hs; omega
    | const l => have := hlen k (by simpa [SInfo.boundedDim, hsh] using hk); omega
    | clipped b => have := hlen k (by simpa [SInfo.boundedDim, hsh] using hk); omega
    | fixedDim n => have := hlen k (by simpa [SInfo.boundedDim, hsh] using hk); omega
    | dyn => simp [SInfo.boundedDim, hsh, ShapeK.len?] at hk
  · intro n hn
    cases hsz : i.size <;> simp [SInfo.fixedSize, hsz] at hn
    all_goals (simp only [hsz, SizeK.γ] at hz; omega)
  · intro n hn
    cases hsz : i.size <;> simp [SInfo.boundedSize, hsz] at hn
    all_goals (simp only [hsz, SizeK.γ] at hz; omega)

example : (⟨.clipped [2, 3], .atMost 6⟩ : SInfo).γ [1, 3] := by decide
example : (⟨.clipped [2, 3], .atMost 6⟩ : SInfo).boundedSize = some 6 := rfl

/-- a result buffer sized from the static knowledge (bounded_size, which is fixed_size when that exists) has room for
    every run-time instance: nothing is clipped. -/
theorem result_buffer_fits {i : SInfo} {s : Shape} {cap : Nat} (h : i.γ s) (hc : i.boundedSize = some cap) :
    prod s ≤ cap := (traits_sound h).2.2.2.2 cap hc

/-- the operand knowledge a view reads through `shape<true>` / `size<true>` is sound -/
theorem seen_static_sound {i : SInfo} {s : Shape} (h : i.γ s) : i.seen.γ s := seen_sound h

/-! ## per-operation soundness -/

/-- admitted run-time values of a reshape target (may contain one `-1` when its values are run-time) -/
def targetOk : ArrK → List Int → Prop
  | .ct c, v => v = c.map Int.ofNat
  | .cl m, v => (∀ x ∈ v, 0 ≤ x) ∧ LeAll (v.map Int.toNat) m
  | .rt n, v => v.length = n
  | .rtv, _ => True
  | .bnd cap, v => v.length ≤ cap

theorem reshape_static_sound {i o : SInfo} {s t : Shape} {k : ArrK} {targ : List Int}
    (h : i.γ s) (hk : targetOk k targ) (hr : refReshape targ s = some t) (ho : transferReshape k i = some o) : o.γ t := by
  obtain ⟨hlen, hprod, hnn⟩ := refReshape_spec hr
  simp only [transferReshape, Option.some.injEq] at ho
  subst ho
  have hz : i.seen.size.γ (prod t) := by rw [hprod]; exact (seen_sound h).2
  refine indexingInfo_sound ?_ hz
  cases k with
  | ct c =>
    simp only [targetOk] at hk
    have : ∀ x ∈ targ, 0 ≤ x := by subst hk; intro x hx; simp at hx; obtain ⟨a, _, rfl⟩ := hx; omega
    rw [hnn this, hk]
    simp [ArrK.toShapeK, ShapeK.γ, Function.comp_def]
  | cl m =>
    obtain ⟨h1, h2⟩ := hk
    rw [hnn h1]; exact h2
  | rt n => simp only [targetOk] at hk; simpa [ArrK.toShapeK, ShapeK.γ, hlen] using hk
  | rtv => trivial
  | bnd cap => simp only [targetOk] at hk; simpa [ArrK.toShapeK, ShapeK.γ, hlen] using hk

example : refReshape [-1, 2] [2, 3] = some [3, 2] := by decide
example : transferReshape (.rt 2) ⟨.clipped [2, 3], .any⟩ = some ⟨.fixedDim 2, .atMost 6⟩ := by decide

theorem flatten_static_sound {i o : SInfo} {s : Shape} (h : i.γ s) (ho : transferFlatten i = some o) : o.γ (refFlatten s) := by
  have hs := seen_sound h
  have hz := hs.2
  have hp : prod (refFlatten s) = prod s := by simp [refFlatten, prod]
  unfold transferFlatten at ho
  cases hsz : i.seen.size with
  | known n =>
    simp only [hsz, transferReshape, Option.some.injEq] at ho; subst ho
    simp only [hsz, SizeK.γ] at hz
    exact indexingInfo_sound (by simp [ArrK.toShapeK, ShapeK.γ, refFlatten, hz]) (by rw [hp]; exact hz)
  | atMost n =>
    simp only [hsz, transferReshape, Option.some.injEq] at ho; subst ho
    simp only [hsz, SizeK.γ] at hz
    exact indexingInfo_sound (by simp [ArrK.toShapeK, ShapeK.γ, refFlatten, LeAll, hz]) (by rw [hp]; exact hz)
  | any =>
    simp only [hsz, transferReshape, Option.some.injEq] at ho; subst ho
    exact indexingInfo_sound (by simp [ArrK.toShapeK, ShapeK.γ, refFlatten]) trivial
  | knownB n b =>
    simp only [hsz, transferReshape, Option.some.injEq] at ho; subst ho
    simp only [hsz, SizeK.γ] at hz
    exact indexingInfo_sound (by simp [ArrK.toShapeK, ShapeK.γ, refFlatten, hz.1]) (by rw [hp]; simp only [hsz, SizeK.γ]; exact hz)

example : transferFlatten ⟨.fixedDim 2, .atMost 6⟩ = some ⟨.clipped [6], .atMost 6⟩ := by decide

theorem broadcast_to_static_sound {i o : SInfo} {s t : Shape} {k : ArrK} {targ : List Nat}
    (hk : k.γ targ) (hr : refBroadcastTo targ s = some t) (ho : transferBroadcastTo k i = some o) : o.γ t := by
  have ht : t = targ := by
    unfold refBroadcastTo at hr
    split at hr <;> simp at hr
    exact hr.symm
  subst ht
  simp only [transferBroadcastTo, Option.some.injEq] at ho; subst ho
  exact indexingInfo_sound (arrK_toShapeK_sound hk) (productK_sound (arrK_toShapeK_sound hk))

example : refBroadcastTo [2, 2, 3] [1, 3] = some [2, 2, 3] := by decide

theorem squeeze_static_sound {i o : SInfo} {s : Shape} (h : i.γ s)
    (ho : transferSqueeze i = some o) : o.γ (refSqueeze s) := by
  have hs := seen_sound h
  have hp : prod (refSqueeze s) = prod s := prod_filter_ne_one s
  have hl : (refSqueeze s).length ≤ s.length := List.length_filter_le _ _
  simp only [transferSqueeze, reshapeByKind, Option.some.injEq] at ho; subst ho
  refine indexingInfo_sound ?_ (by rw [hp]; exact hs.2)
  have hsh := hs.1
  rw [seen_shape] at hsh ⊢
  cases hk : i.shape with
  | const l => simp only [hk, ShapeK.γ] at hsh; subst hsh; simp [ShapeK.γ]
  | clipped b =>
    simp only [hk, ShapeK.γ] at hsh
    have := hsh.length_eq
    by_cases hk0 : b.length > 0 <;> simp [hk0, ShapeK.γ]; omega
  | fixedDim k =>
    simp only [hk, ShapeK.γ] at hsh
    by_cases hk0 : k > 0 <;> simp [hk0, ShapeK.γ]; omega
  | boundedDim k =>
    simp only [hk, ShapeK.γ] at hsh
    by_cases hk0 : k > 0 <;> simp [hk0, ShapeK.γ]; omega
  | dyn => simp [ShapeK.γ]

/-- the instance that used to break the inference (clipped maxima [2,1,3], run-time shape [1,1,2]) -/
example : transferSqueeze ⟨.clipped [2, 1, 3], .atMost 6⟩ = some ⟨.boundedDim 3, .atMost 6⟩ ∧
    (⟨.boundedDim 3, .atMost 6⟩ : SInfo).γ (refSqueeze [1, 1, 2]) := by decide

theorem ufunc1_static_sound {i o : SInfo} {s : Shape} (h : i.γ s) (ho : transferUfunc1 i = some o) : o.γ s := by
  have hs := seen_sound h
  simp only [transferUfunc1, Option.some.injEq] at ho; subst ho
  exact ufuncInfo_sound hs.1 hs.2

theorem tile_static_sound {i o : SInfo} {s : Shape} {k : ArrK} {reps : List Nat}
    (h : i.γ s) (hk : k.γ reps) (ho : transferTile k i = some o) : o.γ (refTile reps s) := by
  have hs := (seen_sound h).1
  rw [seen_shape] at hs
  simp only [transferTile, Option.some.injEq, seen_shape] at ho; subst ho
  have hlen : (tileLenK i.shape.lenK k.lenK).toShapeK.γ (refTile reps s) := by
    apply toShapeK_of_lenK
    rw [length_refTile]
    exact tileLenK_sound (lenK_sound hs) (arrK_lenK_sound hk)
  have hd : (match i.shape, k with
      | .const l, .ct r => ShapeK.const (refTile r l)
      | sh, r => (tileLenK sh.lenK r.lenK).toShapeK).γ (refTile reps s) := by
    cases hsh : i.shape with
    | const l =>
      cases k with
      | ct r =>
        simp only [hsh, ShapeK.γ] at hs; simp only [ArrK.γ] at hk; subst hs hk
        simp [ShapeK.γ]
      | cl m => simpa [hsh] using hlen
      | rt n => simpa [hsh] using hlen
      | rtv => simpa [hsh] using hlen
      | bnd cap => simpa [hsh] using hlen
    | clipped b => simpa [hsh] using hlen
    | fixedDim n => simpa [hsh] using hlen
    | boundedDim n => simpa [hsh] using hlen
    | dyn => simpa [hsh] using hlen
  exact indexingInfo_sound hd (productK_sound hd)

example : refTile [3, 1, 2] [2, 3] = [3, 2, 6] := by decide
/-- repetitions in a `static_vector<int,4>` (bound = capacity) over a rank-2 operand: the result rank is bounded by 4, whatever
    the run-time length (3, below the capacity, or 4, at it) -/
example : transferTile (.bnd 4) ⟨.fixedDim 2, .any⟩ = some ⟨.boundedDim 4, .any⟩ ∧ (ArrK.bnd 4).γ [2, 2, 2] ∧ (ArrK.bnd 4).γ [2, 2, 2, 2] ∧
    (⟨.boundedDim 4, .any⟩ : SInfo).γ (refTile [2, 2, 2] [2, 3]) ∧ (⟨.boundedDim 4, .any⟩ : SInfo).γ (refTile [2, 2, 2, 2] [2, 3]) := by
  refine ⟨by decide, by simp [ArrK.γ], by simp [ArrK.γ], by decide, by decide⟩
example : transferBroadcastTo (.bnd 4) ⟨.fixedDim 2, .any⟩ = some ⟨.boundedDim 4, .any⟩ ∧
    transferReshape (.bnd 3) ⟨.clipped [2, 3], .atMost 6⟩ = some ⟨.boundedDim 3, .atMost 6⟩ ∧
    transferPad (.bnd 5) ⟨.const [2, 3], .known 6⟩ = some ⟨.fixedDim 2, .any⟩ ∧
    transferTranspose (some (.bnd 3)) ⟨.boundedDim 3, .any⟩ = some ⟨.boundedDim 3, .any⟩ := by decide
example : transferTile (.rt 3) ⟨.boundedDim 2, .any⟩ = some ⟨.boundedDim 3, .any⟩ := by decide

/-- admitted run-time values of the `axes` argument of transpose -/
def axesOk : Option ArrK → Option (List Nat) → Prop
  | none, v => v = none
  | some k, some v => k.γ v
  | some _, none => False

theorem transpose_static_sound {i o : SInfo} {s t : Shape} {k : Option ArrK} {axes : Option (List Nat)}
    (h : i.γ s) (hk : axesOk k axes) (hr : refTranspose axes s = some t) (ho : transferTranspose k i = some o) : o.γ t := by
  have hs := seen_sound h
  have hsh := hs.1
  rw [seen_shape] at hsh
  -- facts about the reference result
  have hfacts : t.length = s.length ∧ prod t = prod s := by
    cases axes with
    | none => simp only [refTranspose, Option.some.injEq] at hr; subst hr; simp [prod_reverse]
    | some p =>
      simp only [refTranspose] at hr
      split at hr
      · rename_i hperm
        have hperm' : p.Perm (List.range s.length) := List.isPerm_iff.mp hperm
        refine ⟨?_, gather_prod hperm' hr⟩
        rw [gather_length hr, hperm'.length_eq]; simp
      · simp at hr
  have hz : i.seen.size.γ (prod t) := by rw [hfacts.2]; exact hs.2
  have hlenK : i.shape.lenK.toShapeK.γ t := lenK_toShapeK_sound hsh hfacts.1
  simp only [transferTranspose, seen_shape] at ho
  cases hk' : i.shape with
  | const l =>
    simp only [hk', ShapeK.γ] at hsh; subst hsh
    cases k with
    | none =>
      simp only [axesOk] at hk; subst hk
      simp only [hk', Option.map_some, Option.some.injEq] at ho; subst ho
      simp only [refTranspose, Option.some.injEq] at hr; subst hr
      exact indexingInfo_sound rfl hz
    | some a =>
      cases axes with
      | none => simp [axesOk] at hk
      | some p =>
        simp only [axesOk] at hk
        cases a with
        | ct c =>
          simp only [ArrK.γ] at hk; subst hk
          simp only [hk', hr, Option.map_some, Option.some.injEq] at ho; subst ho
          exact indexingInfo_sound rfl hz
        | cl m => simp only [hk', Option.map_some, Option.some.injEq] at ho; subst ho
                  exact indexingInfo_sound (by simpa [ShapeK.γ] using hfacts.1) hz
        | rt n => simp only [hk', Option.map_some, Option.some.injEq] at ho; subst ho
                  exact indexingInfo_sound (by simpa [ShapeK.γ] using hfacts.1) hz
        | rtv => simp only [hk', Option.map_some, Option.some.injEq] at ho; subst ho
                 exact indexingInfo_sound (by simpa [ShapeK.γ] using hfacts.1) hz
        | bnd cap => simp only [hk', Option.map_some, Option.some.injEq] at ho; subst ho
                     exact indexingInfo_sound (by simpa [ShapeK.γ] using hfacts.1) hz
  | clipped b =>
    simp only [hk', ShapeK.γ] at hsh
    cases k with
    | none =>
      simp only [axesOk] at hk; subst hk
      simp only [hk', Option.map_some, Option.some.injEq] at ho; subst ho
      simp only [refTranspose, Option.some.injEq] at hr; subst hr
      exact indexingInfo_sound (show LeAll _ _ from hsh.reverse) hz
    | some a =>
      cases axes with
      | none => simp [axesOk] at hk
      | some p =>
        simp only [axesOk] at hk
        have hbl : b.length = s.length := hsh.length_eq.symm
        cases a with
        | ct c =>
          simp only [ArrK.γ] at hk; subst hk
          simp only [refTranspose] at hr
          split at hr
          · rename_i hperm
            obtain ⟨t', ht', hle⟩ := gather_leAll hsh hr
            simp only [hk', refTranspose, hbl, hperm, if_true, ht', Option.map_some, Option.some.injEq] at ho; subst ho
            exact indexingInfo_sound hle hz
          · simp at hr
        | cl m => simp only [hk', Option.map_some, Option.some.injEq] at ho; subst ho
                  exact indexingInfo_sound (by simp [ShapeK.γ, hfacts.1, hbl]) hz
        | rt n => simp only [hk', Option.map_some, Option.some.injEq] at ho; subst ho
                  exact indexingInfo_sound (by simp [ShapeK.γ, hfacts.1, hbl]) hz
        | rtv => simp only [hk', Option.map_some, Option.some.injEq] at ho; subst ho
                 exact indexingInfo_sound (by simp [ShapeK.γ, hfacts.1, hbl]) hz
        | bnd cap => simp only [hk', Option.map_some, Option.some.injEq] at ho; subst ho
                     exact indexingInfo_sound (by simp [ShapeK.γ, hfacts.1, hbl]) hz
  | fixedDim n =>
    simp only [hk'] at ho hlenK
    cases k <;> simp only [Option.map_some, Option.some.injEq] at ho <;> subst ho <;> exact indexingInfo_sound hlenK hz
  | boundedDim n =>
    simp only [hk'] at ho hlenK
    cases k <;> simp only [Option.map_some, Option.some.injEq] at ho <;> subst ho <;> exact indexingInfo_sound hlenK hz
  | dyn =>
    simp only [hk'] at ho hlenK
    cases k <;> simp only [Option.map_some, Option.some.injEq] at ho <;> subst ho <;> exact indexingInfo_sound hlenK hz

example : refTranspose (some [2, 0, 1]) [2, 3, 4] = some [4, 2, 3] := by decide
example : transferTranspose (some (.ct [1, 0])) ⟨.clipped [2, 3], .any⟩ = some ⟨.clipped [3, 2], .atMost 6⟩ := by decide

theorem expand_dims_static_sound {i o : SInfo} {s t : Shape} {k : AxisK} {axes : List Nat}
    (h : i.γ s) (hk : k.γ axes) (hr : refExpandDims axes s = some t) (ho : transferExpandDims k i = some o) : o.γ t := by
  have hs := seen_sound h
  have hsh := hs.1
  rw [seen_shape] at hsh
  obtain ⟨hlen, hprod⟩ := refExpandDims_spec hr
  have hz : i.seen.size.γ (prod t) := by rw [hprod]; exact hs.2
  have hgen : ∀ m, m = axes.length → ((i.shape.lenK.add m).toShapeK).γ t := by
    intro m hm
    apply toShapeK_of_lenK
    rw [hlen, ← hm]
    exact lenK_add_sound m (lenK_sound hsh)
  cases k with
  | none => simp [AxisK.γ] at hk
  | cts x =>
    simp only [AxisK.γ] at hk; subst hk
    simp only [transferExpandDims, seen_shape] at ho
    cases hk' : i.shape with
    | const l =>
      simp only [hk', ShapeK.γ] at hsh; subst hsh
      simp only [hk', hr, Option.map_some, Option.some.injEq, reshapeByKind] at ho; subst ho
      exact indexingInfo_sound rfl hz
    | clipped b => simp only [hk', Option.some.injEq, reshapeByKind] at ho; subst ho
                   exact indexingInfo_sound (by simpa [hk'] using hgen 1 rfl) hz
    | fixedDim n => simp only [hk', Option.some.injEq, reshapeByKind] at ho; subst ho
                    exact indexingInfo_sound (by simpa [hk'] using hgen 1 rfl) hz
    | boundedDim n => simp only [hk', Option.some.injEq, reshapeByKind] at ho; subst ho
                      exact indexingInfo_sound (by simpa [hk'] using hgen 1 rfl) hz
    | dyn => simp only [hk', Option.some.injEq, reshapeByKind] at ho; subst ho
             exact indexingInfo_sound (by simpa [hk'] using hgen 1 rfl) hz
  | ctt c =>
    simp only [AxisK.γ] at hk; subst hk
    simp only [transferExpandDims, seen_shape, Option.some.injEq, reshapeByKind] at ho; subst ho
    exact indexingInfo_sound (hgen _ rfl) hz
  | rts =>
    simp only [AxisK.γ] at hk
    simp only [transferExpandDims, seen_shape, Option.some.injEq, reshapeByKind] at ho; subst ho
    exact indexingInfo_sound (hgen 1 hk.symm) hz
  | rt n =>
    simp only [AxisK.γ] at hk
    simp only [transferExpandDims, seen_shape, Option.some.injEq, reshapeByKind] at ho; subst ho
    exact indexingInfo_sound (hgen n hk.symm) hz

example : refExpandDims [0, 3] [2, 3] = some [1, 2, 3, 1] := by decide

theorem reduceGeneric_sound {sh d : ShapeK} {s t : Shape} {k : AxisK} {axes : List Nat} {kd : Bool}
    (hsh : sh.γ s) (hk : k.γ axes)
    (hlen : if kd then t.length = s.length else t.length + axes.length = s.length)
    (hd : reduceGeneric k kd sh = some d) : d.γ t := by
  have hcount : k.count = some axes.length := by
    cases k <;> simp only [AxisK.γ, AxisK.count] at hk ⊢
    · subst hk; rfl
    · subst hk; rfl
    · rw [hk]
    · rw [hk]
  simp only [reduceGeneric, hcount] at hd
  cases kd with
  | true =>
    simp only [if_true, Option.some.injEq] at hd; subst hd
    exact lenK_toShapeK_sound hsh (by simpa using hlen)
  | false =>
    simp only [Bool.false_eq_true, if_false, Option.map_eq_some_iff] at hd
    obtain ⟨k', hk', rfl⟩ := hd
    exact toShapeK_of_lenK (lenK_sub_sound (lenK_sound hsh) hk' (by simpa using hlen))

theorem static?_eq {k : AxisK} {axes a : List Nat} (hk : k.γ axes) (hs : k.static? = some a) : a = axes := by
  cases k <;> simp only [AxisK.γ, AxisK.static?, Option.some.injEq] at hk hs
  · subst hk hs; rfl
  · subst hk hs; rfl
  all_goals simp at hs

/-- reductions (sum, prod, ... along axes): positive extents, the guard of the property -/
theorem reduce_static_sound {i o : SInfo} {s t : Shape} {k : AxisK} {axes : List Nat} {kd : Bool}
    (h : i.γ s) (hpos : Pos s) (hk : k.γ axes) (hr : refReduce axes kd s = some t) (ho : transferReduce k kd i = some o) : o.γ t := by
  have hsh := (seen_sound h).1
  rw [seen_shape] at hsh
  obtain ⟨hlen, hprod⟩ := refReduce_spec hpos hr
  simp only [transferReduce, seen_shape, Option.map_eq_some_iff] at ho
  obtain ⟨d, hd, rfl⟩ := ho
  -- the shape kind
  have hdγ : d.γ t := by
    unfold reduceShapeK at hd
    cases hsk : i.shape with
    | const l =>
      cases hst : k.static? with
      | some a =>
        have := static?_eq hk hst; subst this
        simp only [hsk, ShapeK.γ] at hsh; subst hsh
        simp only [hsk, hst, hr, Option.map_some, Option.some.injEq] at hd; subst hd; rfl
      | none => simp only [hsk, hst] at hd; exact reduceGeneric_sound (by rw [← hsk]; exact hsh) hk hlen hd
    | clipped b => simp only [hsk] at hd; exact reduceGeneric_sound (by rw [← hsk]; exact hsh) hk hlen hd
    | fixedDim n => simp only [hsk] at hd; exact reduceGeneric_sound (by rw [← hsk]; exact hsh) hk hlen hd
    | boundedDim n => simp only [hsk] at hd; exact reduceGeneric_sound (by rw [← hsk]; exact hsh) hk hlen hd
    | dyn => simp only [hsk] at hd; exact reduceGeneric_sound (by rw [← hsk]; exact hsh) hk hlen hd
  -- the size: exact for a constant shape, otherwise the operand's own bound carries over (the result is not larger)
  refine ⟨hdγ, ?_⟩
  have hz := h.2
  cases d with
  | const l => simp only [ShapeK.γ] at hdγ; subst hdγ; simp [reduceInfo, SizeK.γ]
  | clipped b => cases hsz : i.size <;> simp only [reduceInfo, hsz, SizeK.γ] at hz ⊢ <;> omega
  | fixedDim n => cases hsz : i.size <;> simp only [reduceInfo, hsz, SizeK.γ] at hz ⊢ <;> omega
  | boundedDim n => cases hsz : i.size <;> simp only [reduceInfo, hsz, SizeK.γ] at hz ⊢ <;> omega
  | dyn => cases hsz : i.size <;> simp only [reduceInfo, hsz, SizeK.γ] at hz ⊢ <;> omega

example : refReduce [0, 2] false [2, 3, 4] = some [3] := by decide
example : refReduce [1] true [2, 3, 4] = some [2, 1, 4] := by decide
example : transferReduce (.rts) false ⟨.boundedDim 3, .atMost 24⟩ = some ⟨.boundedDim 2, .atMost 24⟩ := by decide

/-! ### broadcasting binary views (ufunc with two array operands) -/

theorem const_of_isConst {A : ShapeK} {a va : Shape} (hA : A.γ a) (hc : A.cvalue = some va) (hi : A.isConst = true) : a = va := by
  cases A <;> simp [ShapeK.isConst] at hi
  simp only [ShapeK.cvalue, Option.some.injEq] at hc; subst hc; exact hA

theorem cvalue_leAll {A : ShapeK} {a va : Shape} (hA : A.γ a) (hc : A.cvalue = some va) : LeAll a va := by
  cases A <;> simp only [ShapeK.cvalue, Option.some.injEq] at hc <;> try (simp at hc)
  · subst hc; simp only [ShapeK.γ] at hA; subst hA; exact LeAll.refl _
  · subst hc; exact hA

theorem bcastStaticTuple_sound {va b t : Shape} {lb : Nat} (hl : va.length ≥ lb) (hb : b.length = lb)
    (hr : refBroadcast va b = some t) : (bcastStaticTuple va (.fixedDim (max va.length lb))).γ t := by
  unfold bcastStaticTuple
  split
  · rename_i hall
    have : t = va := refBroadcast_eq_left (fun x hx => by simpa using List.all_eq_true.mp hall x hx) (by omega) hr
    subst this; exact LeAll.refl _
  · simp only [ShapeK.γ]; rw [refBroadcast_length hr, hb]

theorem bcastStaticTuple_sound' {a vb t : Shape} {la : Nat} (hl : vb.length ≥ la) (ha : a.length = la)
    (hr : refBroadcast a vb = some t) : (bcastStaticTuple vb (.fixedDim (max la vb.length))).γ t := by
  unfold bcastStaticTuple
  split
  · rename_i hall
    have : t = vb := refBroadcast_eq_right (fun x hx => by simpa using List.all_eq_true.mp hall x hx) (by omega) hr
    subst this; exact LeAll.refl _
  · simp only [ShapeK.γ]; rw [refBroadcast_length hr, ha]

theorem bcastStaticArray_sound {va b t : Shape} {bb : Nat} (hp : Pos va) (hl : va.length ≥ bb) (hb : b.length ≤ bb)
    (hr : refBroadcast va b = some t) : (bcastStaticArray va (.boundedDim (max va.length bb))).γ t := by
  unfold bcastStaticArray
  split
  · simp only [ShapeK.γ]; rw [refBroadcast_length hr]; omega
  · rename_i hmin
    have hgt := all_gt_one_of_min hp (by simpa using hmin)
    have : t = va := refBroadcast_eq_left hgt (by omega) hr
    subst this
    exact leAll_replicate (fun x hx => (le_foldl_max t 0).2 x hx)

theorem bcastStaticArray_sound' {a vb t : Shape} {ba : Nat} (hp : Pos vb) (hl : vb.length ≥ ba) (ha : a.length ≤ ba)
    (hr : refBroadcast a vb = some t) : (bcastStaticArray vb (.boundedDim (max vb.length ba))).γ t := by
  unfold bcastStaticArray
  split
  · simp only [ShapeK.γ]; rw [refBroadcast_length hr]; omega
  · rename_i hmin
    have hgt := all_gt_one_of_min hp (by simpa using hmin)
    have : t = vb := refBroadcast_eq_right hgt (by omega) hr
    subst this
    exact leAll_replicate (fun x hx => (le_foldl_max t 0).2 x hx)

theorem bcastLenK_sound {la lb : LenK} {n m : Nat} {t : Shape} (ha : la.γ n) (hb : lb.γ m) (ht : t.length = max n m) :
    (bcastLenK la lb).γ t := by
  cases la <;> cases lb <;> simp only [bcastLenK, ShapeK.γ, LenK.γ] at * <;> omega

theorem constv?_eq {A : ShapeK} {a va : Shape} (hA : A.γ a) (hc : A.constv? = some va) : a = va := by
  cases A <;> simp [ShapeK.constv?] at hc
  subst hc; exact hA

theorem broadcastShapeK_sound {A B k : ShapeK} {a b t : Shape} (hA : A.γ a) (hB : B.γ b) (hpa : Pos a) (hpb : Pos b)
    (hr : refBroadcast a b = some t) (hk : broadcastShapeK A B = some k) : k.γ t := by
  have hlen := refBroadcast_length hr
  have hLa := lenK_sound hA
  have hLb := lenK_sound hB
  unfold broadcastShapeK at hk
  split at hk
  · rename_i va vb hca hcb
    have hlea := cvalue_leAll hA hca
    have hleb := cvalue_leAll hB hcb
    cases hrv : refBroadcast va vb with
    | some r =>
      simp only [hrv, Option.some.injEq] at hk; subst hk
      split
      · rename_i hcc
        simp only [Bool.and_eq_true] at hcc
        have ha := const_of_isConst hA hca hcc.1
        have hb := const_of_isConst hB hcb hcc.2
        subst ha hb
        rw [hr] at hrv; simp only [Option.some.injEq] at hrv; subst hrv; rfl
      · exact refBroadcast_leAll hlea hleb hr hrv
    | none =>
      simp only [hrv] at hk
      split at hk
      · simp at hk
      · simp only [Option.some.injEq] at hk; subst hk
        simp only [ShapeK.γ]; rw [hlen, hlea.length_eq, hleb.length_eq]
  · split at hk
    · -- constant left operand: a IS its static value
      rename_i va _ hcv
      have ha := constv?_eq hA hcv; subst ha
      simp only [Option.some.injEq] at hk; subst hk
      cases hlb : B.lenK with
      | fixed lb =>
        simp only [hlb, LenK.γ] at hLb
        simp only [bcastConstRt]
        split
        · rename_i hge; exact bcastStaticTuple_sound hge hLb hr
        · simp only [ShapeK.γ]; rw [hlen, hLb]
      | bounded bb =>
        simp only [hlb, LenK.γ] at hLb
        simp only [bcastConstRt]
        split
        · rename_i hge; exact bcastStaticArray_sound hpa hge hLb hr
        · simp only [ShapeK.γ]; rw [hlen]; omega
      | dyn => simp [bcastConstRt, ShapeK.γ]
    · rename_i vb _ hcv
      have hb := constv?_eq hB hcv; subst hb
      simp only [Option.some.injEq] at hk; subst hk
      cases hla : A.lenK with
      | fixed la =>
        simp only [hla, LenK.γ] at hLa
        simp only [bcastRtConst]
        split
        · rename_i hge; exact bcastStaticTuple_sound' hge hLa hr
        · simp only [ShapeK.γ]; rw [hlen, hLa]
      | bounded ba =>
        simp only [hla, LenK.γ] at hLa
        simp only [bcastRtConst]
        split
        · rename_i hge; exact bcastStaticArray_sound' hpb hge hLa hr
        · simp only [ShapeK.γ]; rw [hlen]; omega
      | dyn => simp [bcastRtConst, ShapeK.γ]
    · simp only [Option.some.injEq] at hk; subst hk
      exact bcastLenK_sound hLa hLb hlen

/-- binary broadcasting view (`view::add(a, b)` ...), positive extents, every kind combination -/
theorem ufunc2_static_sound {i j o : SInfo} {a b t : Shape} (hi : i.γ a) (hj : j.γ b) (hpa : Pos a) (hpb : Pos b)
    (hr : refBroadcast a b = some t) (ho : transferUfunc2 i j = some o) : o.γ t := by
  simp only [transferUfunc2, seen_shape, Option.map_eq_some_iff] at ho
  obtain ⟨k, hk, rfl⟩ := ho
  exact ufuncInfo_sound (broadcastShapeK_sound hi.1 hj.1 hpa hpb hr hk) trivial

example : refBroadcast [2, 1] [3] = some [2, 3] := by decide
example : transferUfunc2 ⟨.clipped [2, 1], .any⟩ ⟨.const [3], .known 3⟩ = some ⟨.clipped [2, 3], .atMost 6⟩ := by decide
/-- the pair that used to break the inference: clipped [2,3] at (1,1) against a run-time (3,2) -/
example : transferUfunc2 ⟨.clipped [2, 3], .atMost 6⟩ ⟨.fixedDim 2, .any⟩ = some ⟨.fixedDim 2, .any⟩ ∧
    refBroadcast [1, 1] [3, 2] = some [3, 2] ∧ (⟨.fixedDim 2, .any⟩ : SInfo).γ [3, 2] := by decide

/-! ### concatenate (decorator default: sizes are the sums of the operands' sizes) -/

/-- admitted run-time value of the axis argument of concatenate -/
def concatAxisOk : AxisK → Option Nat → Prop
  | .none, v => v = none
  | .cts x, v => v = some x
  | .rts, v => v ≠ none
  | _, _ => False

theorem concatLen_sound {la lb : LenK} {n : Nat} {t : Shape} (ha : la.γ n) (hb : lb.γ n) (ht : t.length = n) :
    (concatLen la lb).γ t := by
  cases la <;> cases lb <;> simp only [concatLen, ShapeK.γ, LenK.γ] at * <;> omega

theorem concatFallback_sound {i j : SInfo} {a b t : Shape} {k : AxisK} {axis : Option Nat}
    (hi : i.γ a) (hj : j.γ b) (hk : concatAxisOk k axis) (hr : refConcat axis a b = some t) :
    (concatFallback k i j).γ t := by
  obtain ⟨hprod, hnone, hsome⟩ := refConcat_spec hr
  have hLa := lenK_sound hi.1
  have hLb := lenK_sound hj.1
  cases k with
  | none =>
    simp only [concatAxisOk] at hk; subst hk
    simp only [refConcat, Option.some.injEq] at hr; subst hr
    have h1 := hi.2; have h2 := hj.2
    simp only [concatFallback]
    cases hx : i.size <;> cases hy : j.size <;> simp only [hx, hy, SizeK.γ, concatFlat, ShapeK.γ] at h1 h2 ⊢ <;> simp [*]
  | cts x =>
    simp only [concatAxisOk] at hk; subst hk
    obtain ⟨h1, h2⟩ := hsome (by simp)
    exact concatLen_sound (n := t.length) (by rw [h1]; exact hLa) (by rw [h2]; exact hLb) rfl
  | rts =>
    simp only [concatAxisOk] at hk
    obtain ⟨h1, h2⟩ := hsome hk
    exact concatLen_sound (n := t.length) (by rw [h1]; exact hLa) (by rw [h2]; exact hLb) rfl
  | ctt c => simp [concatAxisOk] at hk
  | rt n => simp [concatAxisOk] at hk

theorem staticAxis?_eq {k : AxisK} {axis ax : Option Nat} (hk : concatAxisOk k axis) (hs : k.staticAxis? = some ax) : ax = axis := by
  cases k <;> simp only [concatAxisOk, AxisK.staticAxis?, Option.some.injEq] at hk hs
  · subst hk hs; rfl
  · subst hk hs; rfl
  all_goals simp at hs

theorem concatShapeK_sound {i j : SInfo} {d : ShapeK} {a b t : Shape} {k : AxisK} {axis : Option Nat}
    (hi : i.γ a) (hj : j.γ b) (hk : concatAxisOk k axis) (hr : refConcat axis a b = some t)
    (hd : concatShapeK k i j = some d) : d.γ t := by
  unfold concatShapeK at hd
  split at hd
  · rename_i va vb ax hca hcb hax
    have hlea := cvalue_leAll hi.1 hca
    have hleb := cvalue_leAll hj.1 hcb
    have hax' := staticAxis?_eq hk hax
    subst hax'
    simp only [Option.map_eq_some_iff] at hd
    obtain ⟨r, hrv, rfl⟩ := hd
    split
    · rename_i hcc
      simp only [Bool.and_eq_true] at hcc
      have ha := const_of_isConst hi.1 hca hcc.1
      have hb := const_of_isConst hj.1 hcb hcc.2
      subst ha hb
      rw [hr] at hrv; simp only [Option.some.injEq] at hrv; subst hrv; rfl
    · exact leAll_bump (refConcat_leAll hlea hleb hr hrv)
  · simp only [Option.some.injEq] at hd; subst hd
    exact concatFallback_sound hi hj hk hr

theorem concat_static_sound {i j o : SInfo} {a b t : Shape} {k : AxisK} {axis : Option Nat}
    (hi : i.γ a) (hj : j.γ b) (hk : concatAxisOk k axis) (hr : refConcat axis a b = some t)
    (ho : transferConcat k i j = some o) : o.γ t := by
  have hprod := (refConcat_spec hr).1
  have hsum : (sumSizeK i.size j.size).γ (prod t) := by
    have h1 := hi.2; have h2 := hj.2
    rw [hprod]
    cases hx : i.size <;> cases hy : j.size <;> simp only [hx, hy, SizeK.γ, sumSizeK, SizeK.fixed?, SizeK.bound?] at h1 h2 ⊢ <;> omega
  have key : ∀ d, concatShapeK k i.seen j.seen = some d → (concatInfo i.size j.size d).γ t := by
    intro d hd
    have hdγ := concatShapeK_sound (seen_sound hi) (seen_sound hj) hk hr hd
    refine ⟨hdγ, ?_⟩
    cases d with
    | const l => simp only [ShapeK.γ] at hdγ; subst hdγ; simp [concatInfo, SizeK.γ]
    | clipped m => exact hsum
    | fixedDim n => exact hsum
    | boundedDim n => exact hsum
    | dyn => exact hsum
  cases k with
  | ctt c => simp [concatAxisOk] at hk
  | rt n => simp [concatAxisOk] at hk
  | none => simp only [transferConcat, Option.map_eq_some_iff] at ho; obtain ⟨d, hd, rfl⟩ := ho; exact key d hd
  | cts x => simp only [transferConcat, Option.map_eq_some_iff] at ho; obtain ⟨d, hd, rfl⟩ := ho; exact key d hd
  | rts => simp only [transferConcat, Option.map_eq_some_iff] at ho; obtain ⟨d, hd, rfl⟩ := ho; exact key d hd

example : refConcat (some 0) [2, 3] [1, 3] = some [3, 3] := by decide
example : transferConcat (.cts 0) ⟨.const [2, 3], .known 6⟩ ⟨.clipped [1, 3], .atMost 3⟩ = some ⟨.clipped [3, 3], .atMost 9⟩ := by decide

/-! ## second group: repeat, pad, accumulate, roll, flip, slice, moveaxis, take, atleast_nd, number operand -/

theorem repeat_static_sound {i o : SInfo} {s t : Shape} {rep : NumK} {r : Nat} {ax : AxisK} {axis : Option Nat}
    (h : i.γ s) (hr : rep.γ r) (hax : ax.γ1 axis) (href : refRepeat r axis s = some t)
    (ho : transferRepeat rep ax i = some o) : o.γ t := by
  simp only [transferRepeat, Option.map_eq_some_iff] at ho
  obtain ⟨d, hd, rfl⟩ := ho
  exact indexing_product_sound (repeatShapeK_sound (seen_sound h).1 hr hax href hd)

example : refRepeat 2 (some 0) [2, 3] = some [4, 3] ∧ refRepeat 3 none [2, 3] = some [18] := by decide
example : transferRepeat (.ct 2) (.cts 0) ⟨.clipped [2, 3], .atMost 6⟩ = some ⟨.clipped [4, 3], .atMost 12⟩ := by decide
example : transferRepeat .rt .none ⟨.const [2, 3], .known 6⟩ = some ⟨.fixedDim 1, .any⟩ := by decide

theorem pad_static_sound {i o : SInfo} {s t : Shape} {w : ArrK} {pw : List Nat}
    (h : i.γ s) (hk : w.γ pw) (href : refPad pw s = some t) (ho : transferPad w i = some o) : o.γ t := by
  simp only [transferPad, Option.map_eq_some_iff] at ho
  obtain ⟨d, hd, rfl⟩ := ho
  exact indexing_product_sound (padShapeK_sound (seen_sound h).1 hk href hd)

example : refPad [1, 0, 0, 2] [2, 3] = some [3, 5] := by decide
example : transferPad (.cl [2, 1, 1, 3]) ⟨.const [2, 3], .known 6⟩ = some ⟨.clipped [5, 7], .atMost 35⟩ := by decide

/-- cumsum / cumprod: the result has the shape of the operand -/
theorem accumulate_static_sound {i o : SInfo} {s t : Shape} {axis : Nat}
    (h : i.γ s) (href : refAccumulate axis s = some t) (ho : transferAccumulate i = some o) : o.γ t := by
  simp only [refAccumulate] at href
  split at href
  · simp only [Option.some.injEq] at href; subst href
    simp only [transferAccumulate, Option.some.injEq] at ho; subst ho
    exact accumulateInfo_sound h
  · simp at href

example : transferAccumulate ⟨.clipped [2, 3], .any⟩ = some ⟨.clipped [2, 3], .any⟩ ∧
    transferAccumulate ⟨.fixedDim 2, .known 6⟩ = some ⟨.fixedDim 2, .known 6⟩ := by decide

theorem roll_static_sound {i o : SInfo} {s t : Shape} {shift : NumK} {ax : AxisK} {axis : Option Nat}
    (h : i.γ s) (hax : ax.γ1 axis) (href : refRoll axis s = some t) (ho : transferRoll shift ax i = some o) : o.γ t := by
  have := refRoll_eq href; subst this
  cases ax with
  | none =>
    simp only [transferRoll, Option.map_eq_some_iff] at ho
    obtain ⟨f, hf, rfl⟩ := ho
    have hfl : f.γ (refFlatten t) := flatten_static_sound h hf
    have hr := seen_sound (rollAxisInfo_sound shift.isCt hfl)
    refine indexingInfo_sound (seen_sound h).1 ?_
    have := hr.2
    simpa [refFlatten, prod] using this
  | cts x => simp only [transferRoll, Option.some.injEq] at ho; subst ho; exact rollAxisInfo_sound _ h
  | rts => simp only [transferRoll, Option.some.injEq] at ho; subst ho; exact rollAxisInfo_sound _ h
  | ctt c => simp [transferRoll] at ho
  | rt n => simp [transferRoll] at ho

example : transferRoll .rt .none ⟨.clipped [2, 3], .atMost 6⟩ = some ⟨.clipped [2, 3], .atMost 6⟩ ∧
    transferRoll (.ct 1) (.cts 0) ⟨.clipped [2, 3], .atMost 6⟩ = some ⟨.fixedDim 2, .atMost 6⟩ := by decide

theorem flip_static_sound {i o : SInfo} {s t : Shape} {axis : Option Nat}
    (h : i.γ s) (href : refFlip axis s = some t) (ho : transferFlip i = some o) : o.γ t := by
  have := refRoll_eq href; subst this
  simp only [transferFlip, Option.map_eq_some_iff] at ho
  obtain ⟨d, hd, rfl⟩ := ho
  exact indexing_product_sound (sliceShapeK_sound (seen_sound h).1 (by simp) hd)

example : transferFlip ⟨.const [2, 3], .known 6⟩ = some ⟨.fixedDim 2, .any⟩ := by decide

theorem slice_static_sound {i o : SInfo} {s t : Shape} {es : List SlE}
    (h : i.γ s) (href : refSlice es s = some t) (ho : transferSlice es i = some o) : o.γ t := by
  simp only [transferSlice, Option.map_eq_some_iff] at ho
  obtain ⟨d, hd, rfl⟩ := ho
  exact indexing_product_sound (sliceShapeK_sound (seen_sound h).1 (refSlice_length href) hd)

example : refSlice [.idx 0, .ell] [2, 3] = some [3] ∧ refSlice [.ell, .rng 0 1] [2, 3] = some [2, 1] := by decide
example : transferSlice [.idx 0, .ell] ⟨.boundedDim 3, .any⟩ = some ⟨.boundedDim 3, .any⟩ ∧
    transferSlice [.idx 0, .ell] ⟨.clipped [2, 3], .atMost 6⟩ = some ⟨.fixedDim 1, .any⟩ := by decide

/-- the admitted run-time (source, destination) of a moveaxis with compile-time arguments are those constants -/
def moveArgsOk : Option (Nat × Nat) → Nat → Nat → Prop
  | some (a, b), src, dst => src = a ∧ dst = b
  | none, _, _ => True

theorem moveaxis_static_sound {i o : SInfo} {s t : Shape} {ct : Option (Nat × Nat)} {src dst : Nat}
    (h : i.γ s) (hk : moveArgsOk ct src dst) (href : refMoveaxis src dst s = some t)
    (ho : transferMoveaxis ct i = some o) : o.γ t := by
  simp only [refMoveaxis] at href
  split at href
  · have hrt : ∀ {o'}, transferTranspose (some .rtv) i = some o' → o'.γ t :=
      fun ho' => transpose_static_sound (k := some .rtv) (axes := some _) h (by simp [axesOk, ArrK.γ]) href ho'
    unfold transferMoveaxis at ho
    split at ho
    · rename_i l a b hsh
      obtain ⟨rfl, rfl⟩ := hk
      have hs := (seen_sound h).1
      rw [hsh] at hs; simp only [ShapeK.γ] at hs; subst hs
      exact transpose_static_sound (k := some (.ct _)) (axes := some _) h (by simp [axesOk, ArrK.γ]) href ho
    · simp at ho
    · exact hrt ho
  · simp at href

example : refMoveaxis 0 2 [2, 3, 4] = some [3, 4, 2] := by decide
example : transferMoveaxis (some (0, 1)) ⟨.const [2, 3], .known 6⟩ = some ⟨.const [3, 2], .known 6⟩ := by decide

theorem take_static_sound {i o : SInfo} {s t : Shape} {idx : ArrK} {ix : List Nat} {ax : AxisK} {axis : Nat}
    (h : i.γ s) (hk : idx.γ ix) (hax : ax.γ1 (some axis)) (href : refTake ix.length axis s = some t)
    (ho : transferTake idx ax i = some o) : o.γ t := by
  simp only [transferTake, Option.map_eq_some_iff] at ho
  obtain ⟨d, hd, rfl⟩ := ho
  exact takeInfo_sound (takeShapeK_sound (seen_sound h).1 hk hax href hd)

example : refTake 3 0 [2, 3] = some [3, 3] := by decide
example : transferTake (.ct [0, 0, 0]) (.cts 0) ⟨.clipped [2, 3], .atMost 6⟩ = some ⟨.clipped [3, 3], .any⟩ := by decide

theorem atleast_nd_static_sound {i o : SInfo} {s : Shape} (nd : Nat)
    (h : i.γ s) (ho : transferAtleastNd nd i = some o) : o.γ (refAtleastNd nd s) := by
  simp only [transferAtleastNd, Option.some.injEq, reshapeByKind] at ho; subst ho
  have hs := seen_sound h
  exact indexingInfo_sound (atleastShapeK_sound nd hs.1) (by rw [prod_refAtleastNd]; exact hs.2)

example : refAtleastNd 3 [2, 3] = [1, 2, 3] := by decide
example : transferAtleastNd 3 ⟨.boundedDim 2, .any⟩ = some ⟨.boundedDim 3, .any⟩ := by decide

/-- binary ufunc with a number operand (`view::multiply(a, 3)`) -/
theorem mulscalar_static_sound {i o : SInfo} {s : Shape} (h : i.γ s) (ho : transferMulScalar i = some o) : o.γ s := by
  simp only [transferMulScalar, Option.some.injEq] at ho; subst ho
  exact ufuncInfo_sound (seen_sound h).1 trivial

example : transferMulScalar ⟨.fixedDim 2, .known 6⟩ = some ⟨.fixedDim 2, .any⟩ := by decide

/-! ### where (three operands broadcast to one shape; sizes by the decorator default) -/

theorem bsizeK_sound {B : ShapeK} {zi zj zk : SizeK} {a b c t1 t : Shape} (hB : B.γ t)
    (h1 : zi.γ (prod a)) (h2 : zj.γ (prod b)) (h3 : zk.γ (prod c))
    (hr1 : refBroadcast a b = some t1) (hr2 : refBroadcast t1 c = some t) : (bsizeK B [zi, zj, zk]).γ (prod t) := by
  have hfold : (bsizeStep (bsizeStep zi zj) zk).γ (prod t) := bsizeStep_sound (bsizeStep_sound h1 h2 hr1) h3 hr2
  cases B with
  | const l => simp only [ShapeK.γ] at hB; subst hB; simp [bsizeK, SizeK.γ]
  | clipped m => simpa [bsizeK, SizeK.γ] using (show LeAll t m from hB).prod_le
  | fixedDim n => simpa [bsizeK] using hfold
  | boundedDim n => simpa [bsizeK] using hfold
  | dyn => simpa [bsizeK] using hfold

theorem whereInfo_sound {B : ShapeK} {o : SizeK} {t : Shape} (hB : B.γ t) (ho : o.γ (prod t))
    (hnk : B.isConst = false → ∀ n, o ≠ .known n) : (whereInfo B o).γ t := by
  refine ⟨hB, ?_⟩
  have gen : B.isConst = false → (match o with | .known n => SizeK.known n | .atMost n => .atMost n | _ => .any).γ (prod t) := by
    intro hc
    cases o with
    | known n => exact ho
    | atMost n => exact ho
    | any => trivial
    | knownB n b => trivial
  cases B with
  | const l => simp only [ShapeK.γ] at hB; subst hB; simp [whereInfo, SizeK.γ]
  | clipped m => exact gen rfl
  | fixedDim n => exact gen rfl
  | boundedDim n => exact gen rfl
  | dyn => exact gen rfl

/-- `view::where(c, x, y)`: sound for every operand-type triple outside the class `whereTripled` (see
    `where_counterexample`), positive extents -/
theorem where_static_sound {i j k o : SInfo} {a b c t : Shape} (hi : i.γ a) (hj : j.γ b) (hk : k.γ c)
    (hpa : Pos a) (hpb : Pos b) (hpc : Pos c) (href : refBroadcast3 a b c = some t)
    (hcls : whereTripled i j k = false) (ho : transferWhere i j k = some o) : o.γ t := by
  simp only [refBroadcast3, Option.bind_eq_some_iff] at href
  obtain ⟨t1, hr1, hr2⟩ := href
  simp only [transferWhere, Option.map_eq_some_iff] at ho
  obtain ⟨B, hB, rfl⟩ := ho
  have hB' := hB
  simp only [broadcastShapeK3, Option.bind_eq_some_iff] at hB'
  obtain ⟨K1, hK1, hK2⟩ := hB'
  have si := seen_sound hi; have sj := seen_sound hj; have sk := seen_sound hk
  have hK1γ : K1.γ t1 := broadcastShapeK_sound si.1 sj.1 hpa hpb hr1 hK1
  have hp1 : Pos t1 := refBroadcast_pos hpa hpb hr1
  have hBγ : B.γ t := broadcastShapeK_sound hK1γ sk.1 hp1 hpc hr2 hK2
  have hZ := bsizeK_sound hBγ si.2 sj.2 sk.2 hr1 hr2
  have hO := indexingInfo_sound hBγ hZ
  refine whereInfo_sound hBγ hO.2 ?_
  intro hc n hn
  simp only [whereTripled, hB, hc, hn, Bool.not_false, Bool.true_and] at hcls
  exact absurd hcls (by decide)

example : refBroadcast3 [2, 1] [2, 1] [3] = some [2, 3] := by decide
example : transferWhere ⟨.const [2, 3], .known 6⟩ ⟨.const [2, 3], .known 6⟩ ⟨.clipped [2, 3], .atMost 6⟩
    = some ⟨.clipped [2, 3], .atMost 6⟩ := by decide

/-- (the former known finding C11.where-tripled-fixed-size is repaired: both witnesses are now sound) -/
example : transferWhere ⟨.fixedDim 2, .known 1⟩ ⟨.fixedDim 2, .known 1⟩ ⟨.fixedDim 2, .known 6⟩ = some ⟨.fixedDim 2, .known 6⟩ ∧
    transferWhere ⟨.fixedDim 2, .known 6⟩ scalarInfo scalarInfo = some ⟨.fixedDim 2, .known 6⟩ ∧
    (⟨.fixedDim 2, .known 6⟩ : SInfo).γ [2, 3] := by decide

/-- one view of `view::broadcast_arrays(p, q, r)` (number literals are operands with `scalarInfo` and shape `[]`):
    the size type `index::broadcast_size` derives from the operand sizes is sound for every operand order -/
theorem broadcast3_static_sound {i j k o : SInfo} {a b c t : Shape} (hi : i.γ a) (hj : j.γ b) (hk : k.γ c)
    (hpa : Pos a) (hpb : Pos b) (hpc : Pos c) (href : refBroadcast3 a b c = some t)
    (ho : transferBroadcast3 i j k = some o) : o.γ t := by
  simp only [refBroadcast3, Option.bind_eq_some_iff] at href
  obtain ⟨t1, hr1, hr2⟩ := href
  simp only [transferBroadcast3, Option.map_eq_some_iff] at ho
  obtain ⟨B, hB, rfl⟩ := ho
  simp only [broadcastShapeK3, Option.bind_eq_some_iff] at hB
  obtain ⟨K1, hK1, hK2⟩ := hB
  have si := seen_sound hi; have sj := seen_sound hj; have sk := seen_sound hk
  have hK1γ : K1.γ t1 := broadcastShapeK_sound si.1 sj.1 hpa hpb hr1 hK1
  have hBγ : B.γ t := broadcastShapeK_sound hK1γ sk.1 (refBroadcast_pos hpa hpb hr1) hpc hr2 hK2
  exact indexingInfo_sound hBγ (bsizeK_sound hBγ si.2 sj.2 sk.2 hr1 hr2)

/-- a fixed-size first operand (2 elements), a number literal, a dynamic operand that stretches the result to (2,7):
    the first operand's size type must NOT survive (it does when `other_is_all_none` is folded with `||`) -/
example : transferBroadcast3 ⟨.fixedDim 2, .known 2⟩ scalarInfo ⟨.dyn, .any⟩ = some ⟨.dyn, .any⟩ ∧
    refBroadcast3 [2, 1] [] [7] = some [2, 7] ∧
    transferBroadcast3 ⟨.fixedDim 2, .known 6⟩ scalarInfo scalarInfo = some ⟨.fixedDim 2, .known 6⟩ := by decide

/-! ### matmul (operands of rank >= 2) -/

theorem matmulSize_sound {i j : SInfo} {a b t : Shape} (hi : i.γ a) (hj : j.γ b) (hprod : prod t ≤ prod a * prod b) :
    (matmulSize i j).γ (prod t) := by
  unfold matmulSize
  split
  · rename_i x y hx hy
    have h1 := bsz_sound hi hx
    have h2 := bsz_sound hj hy
    simp only [SizeK.γ]
    exact Nat.le_trans hprod (Nat.mul_le_mul h1 h2)
  · trivial

theorem matmul_static_sound {i j o : SInfo} {a b t : Shape} (hi : i.γ a) (hj : j.γ b) (hpa : Pos a) (hpb : Pos b)
    (href : refMatmul a b = some t) (ho : transferMatmul i j = some o) : o.γ t := by
  obtain ⟨hlen, _, _, hprod⟩ := refMatmul_spec hpa hpb href
  have hz := matmulSize_sound hi hj hprod
  unfold transferMatmul at ho
  split at ho
  · rename_i va vb h1 h2
    have ha := (seen_sound hi).1; rw [h1] at ha; simp only [ShapeK.γ] at ha; subst ha
    have hb := (seen_sound hj).1; rw [h2] at hb; simp only [ShapeK.γ] at hb; subst hb
    simp only [Option.map_eq_some_iff] at ho
    obtain ⟨t', ht', rfl⟩ := ho
    rw [href] at ht'; simp only [Option.some.injEq] at ht'; subst ht'
    refine ⟨rfl, ?_⟩
    simp only
    split
    · rename_i bnd hb
      rw [hb] at hz; simp only [SizeK.γ] at hz ⊢
      exact ⟨trivial, hz⟩
    · simp [SizeK.γ]
  · simp only [Option.map_eq_some_iff] at ho
    obtain ⟨d, hd, rfl⟩ := ho
    exact ⟨matmulShapeK_sound (seen_sound hi).1 (seen_sound hj).1 hlen hd, hz⟩

example : refMatmul [4, 2, 3] [3, 5] = some [4, 2, 5] := by decide
example : transferMatmul ⟨.const [2, 3], .known 6⟩ ⟨.clipped [3, 2], .atMost 6⟩ = some ⟨.fixedDim 2, .atMost 36⟩ := by decide
/-- two constant shapes: fixed_size 4 next to bounded_size 36 -/
example : transferMatmul ⟨.const [2, 3], .known 6⟩ ⟨.const [3, 2], .known 6⟩ = some ⟨.const [2, 2], .knownB 4 36⟩ ∧
    (⟨.const [2, 2], .knownB 4 36⟩ : SInfo).fixedSize = some 4 ∧ (⟨.const [2, 2], .knownB 4 36⟩ : SInfo).boundedSize = some 36 := by decide

/-! ## third group: eye, tri, tril / triu, pool2d, resize, sliding_window, compress, outer -/

/-- `view::eye(N, M)` (`v` = the run-time pair): the result type only knows the rank -/
theorem eye_static_sound {k : ArrK} {v : List Nat} {o : SInfo} (hk : k.γ v) (ho : transferEye k = some o) : o.γ v := by
  have hl := arrK_lenK_sound hk
  unfold transferEye at ho
  split at ho
  · rename_i hk2
    rw [hk2] at hl; simp only [LenK.γ] at hl
    simp only [Option.some.injEq] at ho; subst ho
    exact indexing_product_sound (by simpa [ShapeK.γ] using hl)
  · simp at ho

example : transferEye (.ct [2, 3]) = some ⟨.fixedDim 2, .any⟩ ∧ transferEye (.rt 2) = some ⟨.fixedDim 2, .any⟩ ∧
    (⟨.fixedDim 2, .any⟩ : SInfo).γ [4, 5] := by decide
example : (ArrK.rt 2).γ [4, 5] := rfl

/-- `view::tri(N, M)`: a constant shape for compile-time N and M -/
theorem tri_static_sound {k : ArrK} {v : List Nat} {o : SInfo} (hk : k.γ v) (ho : transferTri k = some o) : o.γ v := by
  have hl := arrK_lenK_sound hk
  unfold transferTri at ho
  split at ho
  · simp only [ArrK.γ] at hk; subst hk
    simp only [Option.some.injEq] at ho; subst ho
    exact indexing_product_sound rfl
  · split at ho
    · rename_i hk2
      rw [hk2] at hl; simp only [LenK.γ] at hl
      simp only [Option.some.injEq] at ho; subst ho
      exact indexing_product_sound (by simpa [ShapeK.γ] using hl)
    · simp at ho

example : transferTri (.ct [2, 3]) = some ⟨.const [2, 3], .known 6⟩ ∧ transferTri (.rt 2) = some ⟨.fixedDim 2, .any⟩ := by decide

/-- `view::tril` / `view::triu` (a 1-d operand of n elements gives an (n, n) result) -/
theorem tril_static_sound {i o : SInfo} {s : Shape} (h : i.γ s) (ho : transferTril i = some o) : o.γ (refTril s) := by
  simp only [transferTril, Option.some.injEq] at ho; subst ho
  exact indexing_product_sound (trilShapeK_sound (seen_sound h).1)

example : refTril [3] = [3, 3] ∧ refTril [2, 3, 4] = [2, 3, 4] := by decide
example : transferTril ⟨.clipped [3], .atMost 3⟩ = some ⟨.fixedDim 2, .any⟩ ∧
    transferTril ⟨.boundedDim 1, .any⟩ = some ⟨.boundedDim 2, .any⟩ ∧
    transferTril ⟨.const [3], .known 3⟩ = some ⟨.const [3, 3], .known 9⟩ := by decide

/-- `view::max_pool2d` / `view::avg_pool2d` (kernel, stride: pairs; ceil_mode a compile-time constant): every shape on which
    the kernel fits; for a clipped operand shape with constant kernel and stride the result maxima are the pooled maxima,
    sound because the number of windows grows with the extent (`poolDim_mono`) -/
theorem pool2d_static_sound {i o : SInfo} {s t : Shape} {kk sk : ArrK} {kv sv : List Nat} {ceil : Bool}
    (h : i.γ s) (hk : kk.γ kv) (hs : sk.γ sv) (href : refPool ceil kv sv s = some t)
    (ho : transferPool2d kk sk ceil i = some o) : o.γ t := by
  simp only [transferPool2d, transferPool2dOn, Option.map_eq_some_iff] at ho
  obtain ⟨d, hd, rfl⟩ := ho
  exact takeInfo_sound (poolShapeK_sound h.1 hk hs href hd)

/-- the same when the pooled operand answers `nmtools::shape(a)` with another (sound) shape type than its knowledge says
    (`na::fixed_ndarray`: a run-time array of its constant extents) -/
theorem pool2d_on_static_sound {src : ShapeK} {o : SInfo} {s t : Shape} {kk sk : ArrK} {kv sv : List Nat} {ceil : Bool}
    (h : src.γ s) (hk : kk.γ kv) (hs : sk.γ sv) (href : refPool ceil kv sv s = some t)
    (ho : transferPool2dOn src kk sk ceil = some o) : o.γ t := by
  simp only [transferPool2dOn, Option.map_eq_some_iff] at ho
  obtain ⟨d, hd, rfl⟩ := ho
  exact takeInfo_sound (poolShapeK_sound h hk hs href hd)

example : transferPool2dOn (.fixedDim 2) (.ct [2, 2]) (.ct [1, 1]) false = some ⟨.fixedDim 2, .any⟩ ∧
    (ShapeK.fixedDim 2).γ [2, 3] ∧ refPool false [2, 2] [1, 1] [2, 3] = some [1, 2] := by decide

example : refPool false [2, 2] [1, 1] [5, 3, 4] = some [5, 2, 3] ∧ refPool true [2, 2] [2, 2] [3, 4] = some [2, 2] ∧
    refPool true [2, 2] [3, 3] [4, 4] = some [2, 2] ∧ refPool true [1, 1] [3, 3] [3, 4] = some [1, 2] := by decide
example : transferPool2d (.ct [2, 2]) (.ct [1, 1]) false ⟨.clipped [3, 4], .atMost 12⟩ = some ⟨.clipped [2, 3], .any⟩ ∧
    refPool false [2, 2] [1, 1] [2, 3] = some [1, 2] ∧ (⟨.clipped [2, 3], .any⟩ : SInfo).γ [1, 2] := by decide

/-- `view::resize(a, dst_shape)` -/
theorem resize_static_sound {i o : SInfo} {s t : Shape} {k : ArrK} {targ : List Nat}
    (h : i.γ s) (hk : k.γ targ) (href : refResize targ s = some t) (ho : transferResize k i = some o) : o.γ t := by
  simp only [transferResize, Option.map_eq_some_iff] at ho
  obtain ⟨d, hd, rfl⟩ := ho
  exact indexing_product_sound (resizeShapeK_sound (seen_sound h).1 hk href hd)

example : refResize [4, 5] [3, 4] = some [4, 5] ∧ refResize [4, 0] [3, 4] = none := by decide
example : transferResize (.ct [3, 4]) ⟨.clipped [3, 4], .atMost 12⟩ = some ⟨.fixedDim 2, .any⟩ ∧
    transferResize (.ct [3, 4]) ⟨.const [3, 4], .known 12⟩ = some ⟨.const [3, 4], .known 12⟩ ∧
    transferResize (.rt 3) ⟨.boundedDim 2, .any⟩ = none := by decide

/-- `view::sliding_window(a, window, axis)` for (integer window, one axis) and (window per axis, axis None) -/
theorem sliding_window_static_sound {i o : SInfo} {s t : Shape} {w : WinK} {wv : WinV} {ax : AxisK} {axis : Option Nat}
    (h : i.γ s) (hw : w.γ wv) (hax : ax.γ1 axis) (href : refSlidingWindow wv axis s = some t)
    (ho : transferSlidingWindow w ax i = some o) : o.γ t := by
  simp only [transferSlidingWindow, Option.map_eq_some_iff] at ho
  obtain ⟨d, hd, rfl⟩ := ho
  exact indexing_product_sound (swShapeK_sound (seen_sound h).1 hw hax href hd)

example : refSlidingWindow (.num 2) (some 1) [3, 4] = some [3, 3, 2] ∧
    refSlidingWindow (.arr [1, 2]) none [3, 4] = some [3, 3, 1, 2] := by decide
example : transferSlidingWindow (.arr (.ct [1, 2])) .none ⟨.boundedDim 3, .any⟩ = some ⟨.boundedDim 5, .any⟩ ∧
    transferSlidingWindow (.num (.ct 2)) (.cts 1) ⟨.const [3, 4], .known 12⟩ = some ⟨.const [3, 3, 2], .known 18⟩ := by decide

/-- `view::compress(condition, a, axis)`: every non-zero entry of the condition selects an existing position (NumPy's
    requirement) -/
theorem compress_static_sound {i o : SInfo} {s t : Shape} {c : ArrK} {cv : List Nat} {ax : AxisK} {axis : Option Nat}
    (h : i.γ s) (hc : c.γ cv) (hax : ax.γ1 axis) (href : refCompress cv axis s = some t)
    (ho : transferCompress c ax i = some o) : o.γ t := by
  simp only [transferCompress, Option.map_eq_some_iff] at ho
  obtain ⟨d, hd, rfl⟩ := ho
  exact compressInfo_sound (compressShapeK_sound (seen_sound h).1 hc hax href hd) h.2 (refCompress_spec href).1

example : refCompress [1, 0, 1] (some 0) [3, 4] = some [2, 4] ∧ refCompress [0, 1] none [3, 4] = some [1] := by decide
example : transferCompress (.rt 2) .rts ⟨.clipped [3, 4], .atMost 12⟩ = some ⟨.clipped [3, 4], .atMost 12⟩ ∧
    transferCompress (.ct [1, 0]) (.cts 0) ⟨.clipped [3, 4], .atMost 12⟩ = some ⟨.clipped [1, 4], .atMost 12⟩ ∧
    transferCompress (.ct [0, 0]) (.cts 0) ⟨.clipped [3, 4], .any⟩ = some ⟨.clipped [1, 4], .any⟩ := by decide

/-- `view::outer_<op>(a, b)`: shapes side by side; fixed_size from the TYPE of `index::size_outer` (a constant only when both
    operand sizes are constants), bounded_size = the product of the operands' own bounds -/
theorem outer_static_sound {i j o : SInfo} {a b : Shape} (hi : i.γ a) (hj : j.γ b)
    (ho : transferOuter i j = some o) : o.γ (refOuter a b) := by
  have si := seen_sound hi; have sj := seen_sound hj
  have hd := outerShapeK_sound si.1 sj.1
  have hz := outerSizeK_sound hd si.2 sj.2
  have hp : prod (refOuter a b) = prod a * prod b := prod_append a b
  have hbnd : ∀ x y, i.size.bound? = some x → j.size.bound? = some y → prod (refOuter a b) ≤ x * y := by
    intro x y hx hy
    rw [hp]; exact Nat.mul_le_mul (bound?_sound hi.2 hx) (bound?_sound hj.2 hy)
  unfold transferOuter at ho
  simp only at ho
  generalize outerSizeK (outerShapeK i.seen.shape j.seen.shape) i.seen.size j.seen.size = Z at ho hz
  generalize outerShapeK i.seen.shape j.seen.shape = D at ho hd
  cases hbi : i.size.bound? with
  | none =>
    cases Z <;> simp only [hbi] at ho <;> try (simp at ho; done)
    all_goals (simp only [Option.some.injEq] at ho; subst ho; exact ⟨hd, trivial⟩)
  | some x =>
    cases hbj : j.size.bound? with
    | none =>
      cases Z <;> simp only [hbi, hbj] at ho <;> try (simp at ho; done)
      all_goals (simp only [Option.some.injEq] at ho; subst ho; exact ⟨hd, trivial⟩)
    | some y =>
      have hb := hbnd x y hbi hbj
      cases Z with
      | known n =>
        simp only [hbi, hbj, Option.some.injEq] at ho; subst ho
        refine ⟨hd, ?_⟩
        simp only [SizeK.γ] at hz
        split
        · exact hz
        · exact ⟨hz, hb⟩
      | atMost n => simp only [hbi, hbj, Option.some.injEq] at ho; subst ho; exact ⟨hd, hb⟩
      | any => simp only [hbi, hbj, Option.some.injEq] at ho; subst ho; exact ⟨hd, hb⟩
      | knownB n m => simp only [hbi, hbj, Option.some.injEq] at ho; subst ho; exact ⟨hd, hb⟩

example : transferOuter ⟨.fixedDim 2, .known 6⟩ ⟨.fixedDim 1, .known 2⟩ = some ⟨.fixedDim 3, .known 12⟩ ∧
    transferOuter ⟨.fixedDim 2, .known 6⟩ ⟨.fixedDim 1, .atMost 2⟩ = some ⟨.fixedDim 3, .atMost 12⟩ ∧
    transferOuter ⟨.clipped [2, 3], .any⟩ ⟨.const [2], .known 2⟩ = some ⟨.clipped [2, 3, 2], .any⟩ ∧
    transferOuter ⟨.boundedDim 3, .any⟩ ⟨.const [2], .known 2⟩ = some ⟨.boundedDim 4, .any⟩ := by decide
example : (⟨.fixedDim 3, .known 12⟩ : SInfo).γ (refOuter [3, 2] [2]) := by decide

/-! ## composition: every view type reachable by composing the modelled operations -/

/-- expression trees of views; every node carries the KIND of its arguments (what the type knows) and their run-time
    VALUE (what the object holds); leaves carry the knowledge of the array type and the index of the run-time shape -/
inductive Prog where
  | leaf (i : SInfo) (idx : Nat)
  | transpose (k : Option ArrK) (axes : Option (List Nat)) (p : Prog)
  | reshape (k : ArrK) (targ : List Int) (p : Prog)
  | flatten (p : Prog)
  | broadcastTo (k : ArrK) (targ : List Nat) (p : Prog)
  | tile (k : ArrK) (reps : List Nat) (p : Prog)
  | expandDims (k : AxisK) (axes : List Nat) (p : Prog)
  | squeeze (p : Prog)
  | reduce (k : AxisK) (axes : List Nat) (keepdims : Bool) (p : Prog)
  | ufunc1 (p : Prog)
  | ufunc2 (p q : Prog)
  | concat (k : AxisK) (axis : Option Nat) (p q : Prog)
  | repeat (rep : NumK) (r : Nat) (ax : AxisK) (axis : Option Nat) (p : Prog)
  | pad (w : ArrK) (pw : List Nat) (p : Prog)
  | accumulate (axis : Nat) (p : Prog)
  | roll (shift : NumK) (ax : AxisK) (axis : Option Nat) (p : Prog)
  | flip (axis : Option Nat) (p : Prog)
  | slice (es : List SlE) (p : Prog)
  | moveaxis (ct : Option (Nat × Nat)) (src dst : Nat) (p : Prog)
  | take (idx : ArrK) (ix : List Nat) (ax : AxisK) (axis : Nat) (p : Prog)
  | atleastNd (nd : Nat) (p : Prog)
  | mulScalar (p : Prog)
  | where_ (c x y : Prog)
  | matmul (p q : Prog)
  | eye (k : ArrK) (v : List Nat)
  | tri (k : ArrK) (v : List Nat)
  | tril (p : Prog)
  | pool2d (kk sk : ArrK) (kv sv : List Nat) (ceil : Bool) (p : Prog)
  | resize (k : ArrK) (targ : List Nat) (p : Prog)
  | slidingWindow (w : WinK) (wv : WinV) (ax : AxisK) (axis : Option Nat) (p : Prog)
  | compress (c : ArrK) (cv : List Nat) (ax : AxisK) (axis : Option Nat) (p : Prog)
  | outer (p q : Prog)

/-- compile-time knowledge of the view type (the library's metafunctions) -/
def Prog.static : Prog → Option SInfo
  | .leaf i _ => some i
  | .transpose k _ p => p.static.bind (transferTranspose k)
  | .reshape k _ p => p.static.bind (transferReshape k)
  | .flatten p => p.static.bind transferFlatten
  | .broadcastTo k _ p => p.static.bind (transferBroadcastTo k)
  | .tile k _ p => p.static.bind (transferTile k)
  | .expandDims k _ p => p.static.bind (transferExpandDims k)
  | .squeeze p => p.static.bind transferSqueeze
  | .reduce k _ kd p => p.static.bind (transferReduce k kd)
  | .ufunc1 p => p.static.bind transferUfunc1
  | .ufunc2 p q => p.static.bind (fun i => q.static.bind (fun j => transferUfunc2 i j))
  | .concat k _ p q => p.static.bind (fun i => q.static.bind (fun j => transferConcat k i j))
  | .repeat rep _ ax _ p => p.static.bind (transferRepeat rep ax)
  | .pad w _ p => p.static.bind (transferPad w)
  | .accumulate _ p => p.static.bind transferAccumulate
  | .roll shift ax _ p => p.static.bind (transferRoll shift ax)
  | .flip _ p => p.static.bind transferFlip
  | .slice es p => p.static.bind (transferSlice es)
  | .moveaxis ct _ _ p => p.static.bind (transferMoveaxis ct)
  | .take idx _ ax _ p => p.static.bind (transferTake idx ax)
  | .atleastNd nd p => p.static.bind (transferAtleastNd nd)
  | .mulScalar p => p.static.bind transferMulScalar
  | .where_ c x y => c.static.bind (fun i => x.static.bind (fun j => y.static.bind (fun k => transferWhere i j k)))
  | .matmul p q => p.static.bind (fun i => q.static.bind (fun j => transferMatmul i j))
  | .eye k _ => transferEye k
  | .tri k _ => transferTri k
  | .tril p => p.static.bind transferTril
  | .pool2d kk sk _ _ ceil p => p.static.bind (transferPool2d kk sk ceil)
  | .resize k _ p => p.static.bind (transferResize k)
  | .slidingWindow w _ ax _ p => p.static.bind (transferSlidingWindow w ax)
  | .compress c _ ax _ p => p.static.bind (transferCompress c ax)
  | .outer p q => p.static.bind (fun i => q.static.bind (fun j => transferOuter i j))

/-- run-time shape of the view object (reference semantics) for the leaf shapes `env` -/
def Prog.shape (env : Nat → Shape) : Prog → Option Shape
  | .leaf _ idx => some (env idx)
  | .transpose _ axes p => (p.shape env).bind (refTranspose axes)
  | .reshape _ targ p => (p.shape env).bind (refReshape targ)
  | .flatten p => (p.shape env).map refFlatten
  | .broadcastTo _ targ p => (p.shape env).bind (refBroadcastTo targ)
  | .tile _ reps p => (p.shape env).map (refTile reps)
  | .expandDims _ axes p => (p.shape env).bind (refExpandDims axes)
  | .squeeze p => (p.shape env).map refSqueeze
  | .reduce _ axes kd p => (p.shape env).bind (refReduce axes kd)
  | .ufunc1 p => p.shape env
  | .ufunc2 p q => (p.shape env).bind (fun a => (q.shape env).bind (fun b => refBroadcast a b))
  | .concat _ axis p q => (p.shape env).bind (fun a => (q.shape env).bind (fun b => refConcat axis a b))
  | .repeat _ r _ axis p => (p.shape env).bind (refRepeat r axis)
  | .pad _ pw p => (p.shape env).bind (refPad pw)
  | .accumulate axis p => (p.shape env).bind (refAccumulate axis)
  | .roll _ _ axis p => (p.shape env).bind (refRoll axis)
  | .flip axis p => (p.shape env).bind (refFlip axis)
  | .slice es p => (p.shape env).bind (refSlice es)
  | .moveaxis _ src dst p => (p.shape env).bind (refMoveaxis src dst)
  | .take _ ix _ axis p => (p.shape env).bind (refTake ix.length axis)
  | .atleastNd nd p => (p.shape env).map (refAtleastNd nd)
  | .mulScalar p => p.shape env
  | .where_ c x y => (c.shape env).bind (fun a => (x.shape env).bind (fun b => (y.shape env).bind (fun d => refBroadcast3 a b d)))
  | .matmul p q => (p.shape env).bind (fun a => (q.shape env).bind (fun b => refMatmul a b))
  | .eye _ v => some v
  | .tri _ v => some v
  | .tril p => (p.shape env).map refTril
  | .pool2d _ _ kv sv ceil p => (p.shape env).bind (refPool ceil kv sv)
  | .resize _ targ p => (p.shape env).bind (refResize targ)
  | .slidingWindow _ wv _ axis p => (p.shape env).bind (refSlidingWindow wv axis)
  | .compress _ cv _ axis p => (p.shape env).bind (refCompress cv axis)
  | .outer p q => (p.shape env).bind (fun a => (q.shape env).map (fun b => refOuter a b))

/-- side conditions: leaf shapes are instances of the leaf types, argument values are admitted by their kinds,
    extents are positive where the property needs it -/
def Prog.ok (env : Nat → Shape) : Prog → Prop
  | .leaf i idx => i.γ (env idx)
  | .transpose k axes p => p.ok env ∧ axesOk k axes
  | .reshape k targ p => p.ok env ∧ targetOk k targ
  | .flatten p => p.ok env
  | .broadcastTo k targ p => p.ok env ∧ k.γ targ
  | .tile k reps p => p.ok env ∧ k.γ reps
  | .expandDims k axes p => p.ok env ∧ k.γ axes
  | .squeeze p => p.ok env
  | .reduce k axes _ p => p.ok env ∧ k.γ axes ∧ (∀ s, p.shape env = some s → Pos s)
  | .ufunc1 p => p.ok env
  | .ufunc2 p q => p.ok env ∧ q.ok env ∧ (∀ a, p.shape env = some a → Pos a) ∧ (∀ b, q.shape env = some b → Pos b)
  | .concat k axis p q => p.ok env ∧ q.ok env ∧ concatAxisOk k axis
  | .repeat rep r ax axis p => p.ok env ∧ rep.γ r ∧ ax.γ1 axis
  | .pad w pw p => p.ok env ∧ w.γ pw
  | .accumulate _ p => p.ok env
  | .roll _ ax axis p => p.ok env ∧ ax.γ1 axis
  | .flip _ p => p.ok env
  | .slice _ p => p.ok env
  | .moveaxis ct src dst p => p.ok env ∧ moveArgsOk ct src dst
  | .take idx ix ax axis p => p.ok env ∧ idx.γ ix ∧ ax.γ1 (some axis)
  | .atleastNd _ p => p.ok env
  | .mulScalar p => p.ok env
  -- the operand types of a `where` lie outside the class of the known finding (where_counterexample)
  | .where_ c x y => c.ok env ∧ x.ok env ∧ y.ok env ∧ (∀ a, c.shape env = some a → Pos a) ∧ (∀ b, x.shape env = some b → Pos b) ∧
      (∀ d, y.shape env = some d → Pos d) ∧ (∀ i j k, c.static = some i → x.static = some j → y.static = some k → whereTripled i j k = false)
  | .matmul p q => p.ok env ∧ q.ok env ∧ (∀ a, p.shape env = some a → Pos a) ∧ (∀ b, q.shape env = some b → Pos b)
  | .eye k v => k.γ v
  | .tri k v => k.γ v
  | .tril p => p.ok env
  | .pool2d kk sk kv sv _ p => p.ok env ∧ kk.γ kv ∧ sk.γ sv
  | .resize k targ p => p.ok env ∧ k.γ targ
  | .slidingWindow w wv ax axis p => p.ok env ∧ w.γ wv ∧ ax.γ1 axis
  | .compress c cv ax axis p => p.ok env ∧ c.γ cv ∧ ax.γ1 axis
  | .outer p q => p.ok env ∧ q.ok env

/-- the statically inferred knowledge of ANY composed view type is true of the run-time shape of every instance -/
theorem static_sound (env : Nat → Shape) : ∀ (p : Prog) {o : SInfo} {t : Shape},
    p.ok env → p.static = some o → p.shape env = some t → o.γ t
  | .leaf i idx, o, t, hok, ho, ht => by
      simp only [Prog.static, Option.some.injEq] at ho; simp only [Prog.shape, Option.some.injEq] at ht
      subst ho ht; exact hok
  | .transpose k axes p, o, t, hok, ho, ht => by
      simp only [Prog.static, Option.bind_eq_some_iff] at ho; simp only [Prog.shape, Option.bind_eq_some_iff] at ht
      obtain ⟨i, hi, ho⟩ := ho; obtain ⟨s, hs, ht⟩ := ht
      exact transpose_static_sound (static_sound env p hok.1 hi hs) hok.2 ht ho
  | .reshape k targ p, o, t, hok, ho, ht => by
      simp only [Prog.static, Option.bind_eq_some_iff] at ho; simp only [Prog.shape, Option.bind_eq_some_iff] at ht
      obtain ⟨i, hi, ho⟩ := ho; obtain ⟨s, hs, ht⟩ := ht
      exact reshape_static_sound (static_sound env p hok.1 hi hs) hok.2 ht ho
  | .flatten p, o, t, hok, ho, ht => by
      simp only [Prog.static, Option.bind_eq_some_iff] at ho; simp only [Prog.shape, Option.map_eq_some_iff] at ht
      obtain ⟨i, hi, ho⟩ := ho; obtain ⟨s, hs, rfl⟩ := ht
      exact flatten_static_sound (static_sound env p hok hi hs) ho
  | .broadcastTo k targ p, o, t, hok, ho, ht => by
      simp only [Prog.static, Option.bind_eq_some_iff] at ho; simp only [Prog.shape, Option.bind_eq_some_iff] at ht
      obtain ⟨i, hi, ho⟩ := ho; obtain ⟨s, hs, ht⟩ := ht
      exact broadcast_to_static_sound hok.2 ht ho
  | .tile k reps p, o, t, hok, ho, ht => by
      simp only [Prog.static, Option.bind_eq_some_iff] at ho; simp only [Prog.shape, Option.map_eq_some_iff] at ht
      obtain ⟨i, hi, ho⟩ := ho; obtain ⟨s, hs, rfl⟩ := ht
      exact tile_static_sound (static_sound env p hok.1 hi hs) hok.2 ho
  | .expandDims k axes p, o, t, hok, ho, ht => by
      simp only [Prog.static, Option.bind_eq_some_iff] at ho; simp only [Prog.shape, Option.bind_eq_some_iff] at ht
      obtain ⟨i, hi, ho⟩ := ho; obtain ⟨s, hs, ht⟩ := ht
      exact expand_dims_static_sound (static_sound env p hok.1 hi hs) hok.2 ht ho
  | .squeeze p, o, t, hok, ho, ht => by
      simp only [Prog.static, Option.bind_eq_some_iff] at ho; simp only [Prog.shape, Option.map_eq_some_iff] at ht
      obtain ⟨i, hi, ho⟩ := ho; obtain ⟨s, hs, rfl⟩ := ht
      exact squeeze_static_sound (static_sound env p hok hi hs) ho
  | .reduce k axes kd p, o, t, hok, ho, ht => by
      simp only [Prog.static, Option.bind_eq_some_iff] at ho; simp only [Prog.shape, Option.bind_eq_some_iff] at ht
      obtain ⟨i, hi, ho⟩ := ho; obtain ⟨s, hs, ht⟩ := ht
      exact reduce_static_sound (static_sound env p hok.1 hi hs) (hok.2.2 s hs) hok.2.1 ht ho
  | .ufunc1 p, o, t, hok, ho, ht => by
      simp only [Prog.static, Option.bind_eq_some_iff] at ho; simp only [Prog.shape] at ht
      obtain ⟨i, hi, ho⟩ := ho
      exact ufunc1_static_sound (static_sound env p hok hi ht) ho
  | .ufunc2 p q, o, t, hok, ho, ht => by
      simp only [Prog.static, Option.bind_eq_some_iff] at ho; simp only [Prog.shape, Option.bind_eq_some_iff] at ht
      obtain ⟨i, hi, j, hj, ho⟩ := ho; obtain ⟨a, ha, b, hb, ht⟩ := ht
      obtain ⟨hp, hq, hpa, hpb⟩ := hok
      exact ufunc2_static_sound (static_sound env p hp hi ha) (static_sound env q hq hj hb) (hpa a ha) (hpb b hb) ht ho
  | .concat k axis p q, o, t, hok, ho, ht => by
      simp only [Prog.static, Option.bind_eq_some_iff] at ho; simp only [Prog.shape, Option.bind_eq_some_iff] at ht
      obtain ⟨i, hi, j, hj, ho⟩ := ho; obtain ⟨a, ha, b, hb, ht⟩ := ht
      exact concat_static_sound (static_sound env p hok.1 hi ha) (static_sound env q hok.2.1 hj hb) hok.2.2 ht ho
  | .repeat rep r ax axis p, o, t, hok, ho, ht => by
      simp only [Prog.static, Option.bind_eq_some_iff] at ho; simp only [Prog.shape, Option.bind_eq_some_iff] at ht
      obtain ⟨i, hi, ho⟩ := ho; obtain ⟨s, hs, ht⟩ := ht
      exact repeat_static_sound (static_sound env p hok.1 hi hs) hok.2.1 hok.2.2 ht ho
  | .pad w pw p, o, t, hok, ho, ht => by
      simp only [Prog.static, Option.bind_eq_some_iff] at ho; simp only [Prog.shape, Option.bind_eq_some_iff] at ht
      obtain ⟨i, hi, ho⟩ := ho; obtain ⟨s, hs, ht⟩ := ht
      exact pad_static_sound (static_sound env p hok.1 hi hs) hok.2 ht ho
  | .accumulate axis p, o, t, hok, ho, ht => by
      simp only [Prog.static, Option.bind_eq_some_iff] at ho; simp only [Prog.shape, Option.bind_eq_some_iff] at ht
      obtain ⟨i, hi, ho⟩ := ho; obtain ⟨s, hs, ht⟩ := ht
      exact accumulate_static_sound (static_sound env p hok hi hs) ht ho
  | .roll shift ax axis p, o, t, hok, ho, ht => by
      simp only [Prog.static, Option.bind_eq_some_iff] at ho; simp only [Prog.shape, Option.bind_eq_some_iff] at ht
      obtain ⟨i, hi, ho⟩ := ho; obtain ⟨s, hs, ht⟩ := ht
      exact roll_static_sound (static_sound env p hok.1 hi hs) hok.2 ht ho
  | .flip axis p, o, t, hok, ho, ht => by
      simp only [Prog.static, Option.bind_eq_some_iff] at ho; simp only [Prog.shape, Option.bind_eq_some_iff] at ht
      obtain ⟨i, hi, ho⟩ := ho; obtain ⟨s, hs, ht⟩ := ht
      exact flip_static_sound (static_sound env p hok hi hs) ht ho
  | .slice es p, o, t, hok, ho, ht => by
      simp only [Prog.static, Option.bind_eq_some_iff] at ho; simp only [Prog.shape, Option.bind_eq_some_iff] at ht
      obtain ⟨i, hi, ho⟩ := ho; obtain ⟨s, hs, ht⟩ := ht
      exact slice_static_sound (static_sound env p hok hi hs) ht ho
  | .moveaxis ct src dst p, o, t, hok, ho, ht => by
      simp only [Prog.static, Option.bind_eq_some_iff] at ho; simp only [Prog.shape, Option.bind_eq_some_iff] at ht
      obtain ⟨i, hi, ho⟩ := ho; obtain ⟨s, hs, ht⟩ := ht
      exact moveaxis_static_sound (static_sound env p hok.1 hi hs) hok.2 ht ho
  | .take idx ix ax axis p, o, t, hok, ho, ht => by
      simp only [Prog.static, Option.bind_eq_some_iff] at ho; simp only [Prog.shape, Option.bind_eq_some_iff] at ht
      obtain ⟨i, hi, ho⟩ := ho; obtain ⟨s, hs, ht⟩ := ht
      exact take_static_sound (static_sound env p hok.1 hi hs) hok.2.1 hok.2.2 ht ho
  | .atleastNd nd p, o, t, hok, ho, ht => by
      simp only [Prog.static, Option.bind_eq_some_iff] at ho; simp only [Prog.shape, Option.map_eq_some_iff] at ht
      obtain ⟨i, hi, ho⟩ := ho; obtain ⟨s, hs, rfl⟩ := ht
      exact atleast_nd_static_sound nd (static_sound env p hok hi hs) ho
  | .mulScalar p, o, t, hok, ho, ht => by
      simp only [Prog.static, Option.bind_eq_some_iff] at ho; simp only [Prog.shape] at ht
      obtain ⟨i, hi, ho⟩ := ho
      exact mulscalar_static_sound (static_sound env p hok hi ht) ho
  | .where_ c x y, o, t, hok, ho, ht => by
      simp only [Prog.static, Option.bind_eq_some_iff] at ho; simp only [Prog.shape, Option.bind_eq_some_iff] at ht
      obtain ⟨i, hi, j, hj, k, hk, ho⟩ := ho; obtain ⟨a, ha, b, hb, d, hd, ht⟩ := ht
      obtain ⟨hc, hx, hy, hpa, hpb, hpd, hcls⟩ := hok
      exact where_static_sound (static_sound env c hc hi ha) (static_sound env x hx hj hb) (static_sound env y hy hk hd)
        (hpa a ha) (hpb b hb) (hpd d hd) ht (hcls i j k hi hj hk) ho
  | .matmul p q, o, t, hok, ho, ht => by
      simp only [Prog.static, Option.bind_eq_some_iff] at ho; simp only [Prog.shape, Option.bind_eq_some_iff] at ht
      obtain ⟨i, hi, j, hj, ho⟩ := ho; obtain ⟨a, ha, b, hb, ht⟩ := ht
      obtain ⟨hp, hq, hpa, hpb⟩ := hok
      exact matmul_static_sound (static_sound env p hp hi ha) (static_sound env q hq hj hb) (hpa a ha) (hpb b hb) ht ho
  | .eye k v, o, t, hok, ho, ht => by
      simp only [Prog.shape, Option.some.injEq] at ht; subst ht
      exact eye_static_sound hok ho
  | .tri k v, o, t, hok, ho, ht => by
      simp only [Prog.shape, Option.some.injEq] at ht; subst ht
      exact tri_static_sound hok ho
  | .tril p, o, t, hok, ho, ht => by
      simp only [Prog.static, Option.bind_eq_some_iff] at ho; simp only [Prog.shape, Option.map_eq_some_iff] at ht
      obtain ⟨i, hi, ho⟩ := ho; obtain ⟨s, hs, rfl⟩ := ht
      exact tril_static_sound (static_sound env p hok hi hs) ho
  | .pool2d kk sk kv sv ceil p, o, t, hok, ho, ht => by
      simp only [Prog.static, Option.bind_eq_some_iff] at ho; simp only [Prog.shape, Option.bind_eq_some_iff] at ht
      obtain ⟨i, hi, ho⟩ := ho; obtain ⟨s, hs, ht⟩ := ht
      exact pool2d_static_sound (static_sound env p hok.1 hi hs) hok.2.1 hok.2.2 ht ho
  | .resize k targ p, o, t, hok, ho, ht => by
      simp only [Prog.static, Option.bind_eq_some_iff] at ho; simp only [Prog.shape, Option.bind_eq_some_iff] at ht
      obtain ⟨i, hi, ho⟩ := ho; obtain ⟨s, hs, ht⟩ := ht
      exact resize_static_sound (static_sound env p hok.1 hi hs) hok.2 ht ho
  | .slidingWindow w wv ax axis p, o, t, hok, ho, ht => by
      simp only [Prog.static, Option.bind_eq_some_iff] at ho; simp only [Prog.shape, Option.bind_eq_some_iff] at ht
      obtain ⟨i, hi, ho⟩ := ho; obtain ⟨s, hs, ht⟩ := ht
      exact sliding_window_static_sound (static_sound env p hok.1 hi hs) hok.2.1 hok.2.2 ht ho
  | .compress c cv ax axis p, o, t, hok, ho, ht => by
      simp only [Prog.static, Option.bind_eq_some_iff] at ho; simp only [Prog.shape, Option.bind_eq_some_iff] at ht
      obtain ⟨i, hi, ho⟩ := ho; obtain ⟨s, hs, ht⟩ := ht
      exact compress_static_sound (static_sound env p hok.1 hi hs) hok.2.1 hok.2.2 ht ho
  | .outer p q, o, t, hok, ho, ht => by
      simp only [Prog.static, Option.bind_eq_some_iff] at ho
      simp only [Prog.shape, Option.bind_eq_some_iff, Option.map_eq_some_iff] at ht
      obtain ⟨i, hi, j, hj, ho⟩ := ho; obtain ⟨a, ha, b, hb, rfl⟩ := ht
      exact outer_static_sound (static_sound env p hok.1 hi ha) (static_sound env q hok.2 hj hb) ho

/-- a depth-3 instance: `sum(transpose(add(cl[2,3], cs[1,3]), (1,0)), axis=0)` on the run-time shapes (2,2) and (1,3)
    is refused by NumPy (2 vs 3) — on (2,3),(1,3) the result (2) is an instance of the inferred `fixedDim 1, atMost 6` -/
example :
    let p := Prog.reduce (.cts 0) [0] false (.transpose (some (.ct [1, 0])) (some [1, 0])
              (.ufunc2 (.leaf ⟨.clipped [2, 3], .atMost 6⟩ 0) (.leaf ⟨.const [1, 3], .known 3⟩ 1)))
    let env : Nat → Shape := fun n => if n = 0 then [2, 3] else [1, 3]
    p.static = some ⟨.fixedDim 1, .atMost 6⟩ ∧ p.shape env = some [2] := by decide

/-- a depth-3 instance over the second group: `cumsum(pad(repeat(cl[2,3], 2, axis 0), (1,0,0,2)), 0)` on the run-time shape (1,2) -/
def exProg2 : Prog :=
  .accumulate 0 (.pad (.ct [1, 0, 0, 2]) [1, 0, 0, 2] (.repeat (.ct 2) 2 (.cts 0) (some 0) (.leaf ⟨.clipped [2, 3], .atMost 6⟩ 0)))
example : exProg2.static = some ⟨.clipped [5, 5], .atMost 25⟩ ∧ exProg2.shape (fun _ => [1, 2]) = some [3, 4] := by decide
example : exProg2.ok (fun _ => [1, 2]) :=
  ⟨⟨(by decide : (⟨.clipped [2, 3], .atMost 6⟩ : SInfo).γ [1, 2]), rfl, rfl⟩, rfl⟩

/-- for every composed view: the buffer the resolver sizes from `bounded_size_v` holds the whole result -/
theorem composed_result_buffer_fits (env : Nat → Shape) (p : Prog) {o : SInfo} {t : Shape} {cap : Nat}
    (hok : p.ok env) (ho : p.static = some o) (ht : p.shape env = some t) (hc : o.boundedSize = some cap) : prod t ≤ cap :=
  result_buffer_fits (static_sound env p hok ho ht) hc

/-- a depth-3 instance over the third group: `outer(compress([1,0,1], max_pool2d(cl[4,5], (2,2), (1,1)), axis 0), fdf[2])`
    on the run-time shapes (3,4) and (2): pooled (2,3), compressed (1,3) — NumPy needs the third entry of the condition to be
    0 there, so the condition is [1,0,0] —, outer (1,3,2); only the rank 3 is inferred (a pooled view reports no bounded size) -/
def exProg3 : Prog :=
  .outer (.compress (.rt 3) [1, 0, 0] (.cts 0) (some 0)
            (.pool2d (.ct [2, 2]) (.ct [1, 1]) [2, 2] [1, 1] false (.leaf ⟨.clipped [4, 5], .atMost 20⟩ 0)))
         (.leaf ⟨.fixedDim 1, .known 2⟩ 1)
def exEnv3 : Nat → Shape := fun n => if n = 0 then [3, 4] else [2]
example : exProg3.static = some ⟨.fixedDim 3, .any⟩ ∧ exProg3.shape exEnv3 = some [1, 3, 2] := by decide
example : (Prog.tril (.tile (.bnd 3) [2, 2, 2] (.leaf ⟨.fixedDim 1, .atMost 4⟩ 0))).static = some ⟨.boundedDim 3, .any⟩ ∧
    (Prog.tril (.tile (.bnd 3) [2, 2, 2] (.leaf ⟨.fixedDim 1, .atMost 4⟩ 0))).shape (fun _ => [3]) = some [2, 2, 6] := by decide
/-- `composed_result_buffer_fits` is not vacuous on the third group: sliding_window over a tiled clipped leaf -/
example :
    let p := Prog.slidingWindow (.num (.ct 2)) (.num 2) (.cts 1) (some 1) (.resize (.ct [3, 4]) [3, 4] (.leaf ⟨.const [2, 2], .known 4⟩ 0))
    p.static = some ⟨.const [3, 3, 2], .known 18⟩ ∧ p.shape (fun _ => [2, 2]) = some [3, 3, 2] ∧
    (⟨.const [3, 3, 2], .known 18⟩ : SInfo).boundedSize = some 18 := by decide

/-! ## the eval resolver (array/eval.hpp:706-879): the container chosen from the static knowledge has room -/

theorem shapeCand_sound {i : SInfo} {s : Shape} (h : i.γ s) {sc : ShapeC} {sh : ShapeK} (hc : shapeCand i sc = some sh) : sh.γ s := by
  obtain ⟨h1, h2, h3, _, _⟩ := traits_sound h
  cases sc with
  | c => simp only [shapeCand, Option.map_eq_some_iff] at hc; obtain ⟨l, hl, rfl⟩ := hc; exact h1 l hl
  | l =>
    simp only [shapeCand] at hc
    split at hc
    · rename_i b hb; simp only [Option.some.injEq] at hc; subst hc; have := h.1; rw [hb] at this; exact this
    · simp at hc
  | f => simp only [shapeCand, Option.map_eq_some_iff] at hc; obtain ⟨k, hk, rfl⟩ := hc; exact h2 k hk
  | b => simp only [shapeCand, Option.map_eq_some_iff] at hc; obtain ⟨k, hk, rfl⟩ := hc; exact h3 k hk
  | d => simp only [shapeCand, Option.some.injEq] at hc; subst hc; trivial

theorem bufCand_sound {i : SInfo} {s : Shape} (h : i.γ s) {bc : BufC} {b : BufK} (hc : bufCand i bc = some b) : b.fits (prod s) := by
  obtain ⟨_, _, _, h4, h5⟩ := traits_sound h
  cases bc with
  | f => simp only [bufCand, Option.map_eq_some_iff] at hc; obtain ⟨n, hn, rfl⟩ := hc; exact h4 n hn
  | b =>
    simp only [bufCand] at hc
    split at hc
    · rename_i m hm
      simp only [Option.some.injEq] at hc; subst hc
      have := h.1; rw [hm] at this
      exact (show LeAll s m from this).prod_le
    · simp only [Option.map_eq_some_iff] at hc; obtain ⟨n, hn, rfl⟩ := hc; exact h5 n hn
  | d => simp only [bufCand, Option.some.injEq] at hc; subst hc; trivial

theorem firstAvailable_sound {i : SInfo} {s : Shape} (h : i.γ s) : ∀ (l : List (ShapeC × BufC)) {r : ResK},
    firstAvailable i l = some r → r.admits s
  | [], r, hr => by simp [firstAvailable] at hr
  | (sc, bc) :: rest, r, hr => by
      simp only [firstAvailable] at hr
      split at hr
      · rename_i sh b hs hb
        simp only [Option.some.injEq] at hr; subst hr
        exact ⟨shapeCand_sound h hs, bufCand_sound h hb⟩
      · exact firstAvailable_sound h rest hr

/-- the default resolver always finds a container (the last pair of the list is always available) -/
theorem eval_resolver_total (i : SInfo) : ∃ r, resolveEval i = some r := by
  have key : ∀ (pre : List (ShapeC × BufC)), ∃ r, firstAvailable i (pre ++ [(.d, .d)]) = some r := by
    intro pre
    induction pre with
    | nil => exact ⟨⟨.dyn, .dyn⟩, by simp [firstAvailable, shapeCand, bufCand]⟩
    | cons x xs ih =>
      obtain ⟨sc, bc⟩ := x
      obtain ⟨r, hr⟩ := ih
      simp only [List.cons_append, firstAvailable]
      split
      · exact ⟨_, rfl⟩
      · exact ⟨r, hr⟩
  exact key [(.c, .f), (.c, .b), (.l, .f), (.l, .b), (.f, .f), (.f, .b), (.b, .f), (.b, .b), (.d, .f), (.d, .b),
    (.c, .d), (.l, .d), (.f, .d), (.b, .d)]

/-- result_buffer_fits for the eval resolver: for EVERY run-time instance of the view type, the container chosen from the
    static knowledge can be given the run-time shape and its data buffer holds every element (a fixed buffer has exactly
    as many, a bounded one at least as many): nothing is clipped and no `resize` is ignored -/
theorem eval_result_buffer_fits {i : SInfo} {s : Shape} {r : ResK} (h : i.γ s) (hr : resolveEval i = some r) : r.admits s :=
  firstAvailable_sound h evalPriority hr

/-- capacity form: the run-time size never exceeds the capacity of the chosen data buffer -/
theorem eval_capacity_ge_size {i : SInfo} {s : Shape} {r : ResK} {cap : Nat} (h : i.γ s) (hr : resolveEval i = some r)
    (hc : r.buf.capacity = some cap) : prod s ≤ cap := by
  have := (eval_result_buffer_fits h hr).2
  cases hb : r.buf <;> rw [hb] at this hc <;> simp only [BufK.capacity, Option.some.injEq] at hc <;> simp only [BufK.fits] at this
  · omega
  · omega
  · simp at hc

/-- the static knowledge of the RESULT type is again true of the instance (results feed further views) -/
theorem eval_result_info_sound {i : SInfo} {s : Shape} {r : ResK} (h : i.γ s) (hr : resolveEval i = some r) : r.info.γ s := by
  obtain ⟨h1, h2⟩ := eval_result_buffer_fits h hr
  refine ⟨h1, ?_⟩
  unfold ResK.info
  cases hsh : r.shape with
  | const l => rw [hsh] at h1; simp only [ShapeK.γ] at h1; subst h1; simp [SizeK.γ]
  | clipped b => cases hb : r.buf <;> rw [hb] at h2 <;> simpa [BufK.fits, SizeK.γ] using h2
  | fixedDim n => cases hb : r.buf <;> rw [hb] at h2 <;> simpa [BufK.fits, SizeK.γ] using h2
  | boundedDim n => cases hb : r.buf <;> rw [hb] at h2 <;> simpa [BufK.fits, SizeK.γ] using h2
  | dyn => cases hb : r.buf <;> rw [hb] at h2 <;> simpa [BufK.fits, SizeK.γ] using h2

example : resolveEval ⟨.clipped [3, 3], .any⟩ = some ⟨.clipped [3, 3], .bounded 9⟩ := by decide
example : resolveEval ⟨.fixedDim 2, .atMost 36⟩ = some ⟨.fixedDim 2, .bounded 36⟩ := by decide
example : resolveEval ⟨.boundedDim 3, .known 6⟩ = some ⟨.boundedDim 3, .fixed 6⟩ := by decide
example : (⟨.clipped [3, 3], .bounded 9⟩ : ResK).admits [2, 3] := by decide
/-- why the soundness of the traits matters here: the unsound `fixed_size = 18` of the known `where` finding makes the
    resolver choose a buffer the 6-element instance does not fit -/
example : resolveEval ⟨.fixedDim 2, .known 18⟩ = some ⟨.fixedDim 2, .fixed 18⟩ ∧ ¬ (⟨.fixedDim 2, .fixed 18⟩ : ResK).admits [2, 3] := by decide

/-- for every composed view: the container `array::eval` allocates holds the whole result -/
theorem composed_eval_result_fits (env : Nat → Shape) (p : Prog) {o : SInfo} {t : Shape} {r : ResK}
    (hok : p.ok env) (ho : p.static = some o) (ht : p.shape env = some t) (hr : resolveEval o = some r) : r.admits t :=
  eval_result_buffer_fits (static_sound env p hok ho ht) hr

/-! ## the OLDER resolver (`resolve_optype<array::eval_t, view_t, none_t>`, eval.hpp:888-948): the default of a bare
    `array::eval(view)`.  It reuses the OPERAND's container for the result (NmVerif.StaticEval), so the statement of
    `eval_result_buffer_fits` holds only where that container covers the view's knowledge; elsewhere it fails
    (`old_eval_counterexample`, known finding C11.old-resolver-operand-container) -/

theorem LeAll.trans' : ∀ {a b c : List Nat}, LeAll a b → LeAll b c → LeAll a c
  | [], [], [], _, _ => trivial
  | _ :: _, _ :: _, _ :: _, h1, h2 => ⟨Nat.le_trans h1.1 h2.1, LeAll.trans' h1.2 h2.2⟩
  | [], [], _ :: _, _, h2 => by simp [LeAll] at h2
  | _ :: _, _ :: _, [], _, h2 => by simp [LeAll] at h2
  | [], _ :: _, _, h1, _ => by simp [LeAll] at h1
  | _ :: _, [], _, h1, _ => by simp [LeAll] at h1

theorem len?_sound {V : ShapeK} {s : Shape} {m : Nat} (hv : V.γ s) (hl : V.len? = some m) : s.length = m := by
  cases V <;> simp only [ShapeK.len?, Option.some.injEq] at hl <;> simp only [ShapeK.γ] at hv
  · subst hv; exact hl
  · rw [(show LeAll s _ from hv).length_eq]; exact hl
  · omega
  · simp at hl
  · simp at hl

theorem shapeK_covers_sound {K V : ShapeK} {s : Shape} (hc : K.covers V = true) (hv : V.γ s) : K.γ s := by
  cases K with
  | dyn => trivial
  | boundedDim b =>
    cases V with
    | boundedDim m => simp only [ShapeK.covers, decide_eq_true_eq] at hc; simp only [ShapeK.γ] at hv ⊢; omega
    | const l => simp only [ShapeK.covers, ShapeK.len?, decide_eq_true_eq] at hc; simp only [ShapeK.γ] at hv ⊢; subst hv; exact hc
    | clipped m =>
      simp only [ShapeK.covers, ShapeK.len?, decide_eq_true_eq] at hc
      simp only [ShapeK.γ] at hv ⊢; rw [(show LeAll s m from hv).length_eq]; exact hc
    | fixedDim k => simp only [ShapeK.covers, ShapeK.len?, decide_eq_true_eq] at hc; simp only [ShapeK.γ] at hv ⊢; omega
    | dyn => simp [ShapeK.covers, ShapeK.len?] at hc
  | fixedDim n =>
    simp only [ShapeK.covers, beq_iff_eq] at hc
    exact len?_sound hv hc
  | clipped mx =>
    cases V with
    | clipped m => simp only [ShapeK.covers, decide_eq_true_eq] at hc; exact LeAll.trans' (show LeAll s m from hv) hc
    | const l => simp only [ShapeK.covers, decide_eq_true_eq] at hc; simp only [ShapeK.γ] at hv; subst hv; exact hc
    | fixedDim k => simp [ShapeK.covers] at hc
    | boundedDim k => simp [ShapeK.covers] at hc
    | dyn => simp [ShapeK.covers] at hc
  | const l =>
    cases V with
    | const l' => simp only [ShapeK.covers, beq_iff_eq] at hc; simp only [ShapeK.γ] at hv ⊢; rw [hv, hc]
    | clipped m => simp [ShapeK.covers] at hc
    | fixedDim k => simp [ShapeK.covers] at hc
    | boundedDim k => simp [ShapeK.covers] at hc
    | dyn => simp [ShapeK.covers] at hc

theorem bufK_covers_sound {B : BufK} {z : SizeK} {n : Nat} (hc : B.covers z = true) (hz : z.γ n) : B.fits n := by
  cases B with
  | dyn => trivial
  | fixed k =>
    cases z <;> simp only [BufK.covers, beq_iff_eq] at hc <;> simp only [SizeK.γ] at hz <;> simp only [BufK.fits]
    · omega
    · simp at hc
    · simp at hc
    · omega
  | bounded k =>
    simp only [BufK.covers] at hc
    cases hb : z.bound? with
    | none => simp [hb] at hc
    | some m =>
      simp only [hb, decide_eq_true_eq] at hc
      have := bound?_sound hz hb
      simp only [BufK.fits]; omega

/-- `eval_result_buffer_fits` for the older resolver, one array operand: whenever the container it picks covers the view's
    static knowledge (always so when it falls back to `vector / vector`), every instance fits -/
theorem old_eval_result_buffer_fits {a : OperK} {v : SInfo} {s : Shape} {r : ResK} (h : v.γ s)
    (_hr : resolveEvalOld1 a v = some r) (hc : r.covers v = true) : r.admits s := by
  simp only [ResK.covers, Bool.and_eq_true] at hc
  exact ⟨shapeK_covers_sound hc.1 h.1, bufK_covers_sound hc.2 h.2⟩

/-- the same for two array operands -/
theorem old_eval2_result_buffer_fits {a b : OperK} {v : SInfo} {s : Shape} {r : ResK} (h : v.γ s)
    (_hr : resolveEvalOld2 a b v = some r) (hc : r.covers v = true) : r.admits s := by
  simp only [ResK.covers, Bool.and_eq_true] at hc
  exact ⟨shapeK_covers_sound hc.1 h.1, bufK_covers_sound hc.2 h.2⟩

/-- the fallback container always covers -/
theorem old_eval_dynamic_covers (v : SInfo) : dynRes.covers v = true := by
  cases hz : v.size <;> simp [dynRes, ResK.covers, ShapeK.covers, BufK.covers]

example : resolveEvalOld1 ⟨.fixedDim 2, .dyn⟩ ⟨.fixedDim 2, .any⟩ = some ⟨.fixedDim 2, .dyn⟩ ∧
    (ResK.mk (.fixedDim 2) .dyn).covers ⟨.fixedDim 2, .any⟩ = true ∧ (⟨.fixedDim 2, .any⟩ : SInfo).γ [3, 2] := by decide
example : resolveEvalOld1 ⟨.const [2, 3], .fixed 6⟩ ⟨.const [3, 2], .known 6⟩ = some dynRes := by decide

/-- the statement FAILS for the older resolver (genuine defect, replayed on the real headers):
    `array::eval(view::tile(a, reps))` with `a : ndarray_t<vector<int>, static_vector<size_t,3>>` of shape (2,3) and four
    repetitions: the view has rank 4 (bounded_dim 4), the resolver reuses the operand's type, whose shape container holds at
    most 3 extents — the result cannot take the shape and the evaluator returns without writing.  Likewise
    `array::eval(view::add(a, b))` for that `a` and a dynamic `b` of rank 4, and a tiled fixed-buffer operand (two operands of
    DIFFERENT fixed ranks do not compile: the evaluator's shape comparison static_asserts). -/
theorem old_eval_counterexample :
    (transferTile (.rt 4) ⟨.boundedDim 3, .any⟩ = some ⟨.boundedDim 4, .any⟩ ∧
     (⟨.boundedDim 4, .any⟩ : SInfo).γ [2, 1, 2, 3] ∧
     resolveEvalOld1 ⟨.boundedDim 3, .dyn⟩ ⟨.boundedDim 4, .any⟩ = some ⟨.boundedDim 3, .dyn⟩ ∧
     ¬ (ResK.mk (.boundedDim 3) .dyn).admits [2, 1, 2, 3]) ∧
    (transferUfunc2 ⟨.boundedDim 3, .any⟩ ⟨.dyn, .any⟩ = some ⟨.dyn, .any⟩ ∧
     resolveEvalOld2 ⟨.boundedDim 3, .dyn⟩ ⟨.dyn, .dyn⟩ ⟨.dyn, .any⟩ = some ⟨.boundedDim 3, .dyn⟩ ∧
     ¬ (ResK.mk (.boundedDim 3) .dyn).admits [2, 2, 2, 3]) ∧
    (transferTile (.rt 2) ⟨.fixedDim 2, .known 6⟩ = some ⟨.fixedDim 2, .any⟩ ∧
     resolveEvalOld1 ⟨.fixedDim 2, .fixed 6⟩ ⟨.fixedDim 2, .any⟩ = some ⟨.fixedDim 2, .fixed 6⟩ ∧
     ¬ (ResK.mk (.fixedDim 2) (.fixed 6)).admits [2, 6]) := by decide

end NmVerif.Props.C11
