import NmVerif.Index.Where
import NmVerif.Props.C06
/-
  C04, second file — `where` and the generators (arange, linspace, full / zeros / ones(_like)).
  Same namespace as Props/C04.lean (imported there, so the audit sees these theorems).
  Models: Index/Where.lean (on top of C06's broadcast model), Index/Generators.lean.
-/
namespace NmVerif.Props.C04
open NmVerif NmVerif.Index

/-! ### where(cond, x, y) — NumPy: the three operands are broadcast against each other;
    `out[d] = x'[d] if cond'[d] ≠ 0 else y'[d]` (primes: broadcast operands, i.e. the element at `specBroadcastIdx`) -/

private theorem whereView_some (c x y : Shape) (w : WhereView) (h : whereView c x y = some w) :
    broadcastArraysViews [c, x, y] = some [w.c, w.x, w.y] := by
  unfold whereView at h
  split at h
  · rename_i vc vx vy heq
    simp only [Option.some.injEq] at h
    subst h
    exact heq
  · simp at h

private theorem whereView_isSome (c x y : Shape) :
    (whereView c x y).isSome = (broadcastArraysViews [c, x, y]).isSome := by
  cases hb : broadcastArraysViews [c, x, y] with
  | none => simp [whereView, hb]
  | some vs =>
    obtain ⟨r, _, hl, _⟩ := C06.broadcastArrays_elem [c, x, y] vs hb
    match vs, hl with
    | [vc, vx, vy], _ => simp [whereView, hb]

private theorem mapM_zip' {α β} (f : α → Option β) (l : List α) (vs : List β) (h : l.mapM f = some vs) :
    ∀ p ∈ l.zip vs, f p.1 = some p.2 := by
  induction l generalizing vs with
  | nil => simp at h; subst h; simp
  | cons a t ih =>
    simp only [List.mapM_cons, Option.bind_eq_bind, Option.bind_eq_some_iff, Option.pure_def, Option.some.injEq] at h
    obtain ⟨y, hy, ys, hys, rfl⟩ := h
    intro p hp
    simp only [List.zip_cons_cons, List.mem_cons] at hp
    rcases hp with rfl | hp
    · exact hy
    · exact ih ys hys p hp

private theorem allPos3 {c x y : Shape} (hc : Pos c) (hx : Pos x) (hy : Pos y) : C06.AllPos [c, x, y] := by
  intro s hs
  simp only [List.mem_cons, List.not_mem_nil, or_false] at hs
  rcases hs with rfl | rfl | rfl <;> assumption

/-- `where` answers Nothing exactly when the three shapes are not broadcast-compatible (NumPy's rule) -/
theorem where_isSome_iff (c x y : Shape) (hc : Pos c) (hx : Pos x) (hy : Pos y) :
    (whereView c x y).isSome ↔ Compatible [c, x, y] := by
  rw [whereView_isSome]
  exact C06.broadcastArrays_isSome_iff [c, x, y] (by simp) (allPos3 hc hx hy)

theorem where_nothing (c x y : Shape) (hc : Pos c) (hx : Pos x) (hy : Pos y) (h : ¬ Compatible [c, x, y]) :
    whereView c x y = none := by
  cases hw : whereView c x y with
  | none => rfl
  | some w => exact absurd ((where_isSome_iff c x y hc hx hy).1 (by simp [hw])) h

/-- the result shape is the broadcast of the three shapes: the per-axis maximum (rank = largest rank), and each broadcast
    operand views its own source -/
theorem where_shape (c x y : Shape) (hc : Pos c) (hx : Pos x) (hy : Pos y) (w : WhereView)
    (h : whereView c x y = some w) :
    broadcastShape [c, x, y] = some w.dst ∧ IsAxisMax w.dst [c, x, y] ∧
      w.c.src = c ∧ w.x.src = x ∧ w.y.src = y ∧ w.x.dst = w.dst ∧ w.y.dst = w.dst := by
  have hb := whereView_some c x y w h
  obtain ⟨r, hr, _, hz⟩ := C06.broadcastArrays_elem [c, x, y] _ hb
  have h0 := hz (c, w.c) (by simp)
  have h1 := hz (x, w.x) (by simp)
  have h2 := hz (y, w.y) (by simp)
  have hdst : w.dst = r := h0.2.1
  rw [hdst]
  exact ⟨hr, C06.broadcast_eq_max [c, x, y] (by simp) (allPos3 hc hx hy) r hr, h0.1, h1.1, h2.1, h1.2.1, h2.2.1⟩

/-- `out[d]` is `x` at the broadcast index of `d` where the condition (at ITS broadcast index) is non-zero, else `y` at its
    broadcast index: NumPy's `where` -/
theorem where_elem (c x y : Shape) (w : WhereView) (h : whereView c x y = some w) (cond : Idx → Int) (d : Idx)
    (hd : InShape d w.dst) :
    w.select cond d = some (if cond (specBroadcastIdx c d) ≠ 0 then (false, specBroadcastIdx x d)
                            else (true, specBroadcastIdx y d)) := by
  have hb := whereView_some c x y w h
  obtain ⟨r, hr, _, hz⟩ := C06.broadcastArrays_elem [c, x, y] _ hb
  have h0 := hz (c, w.c) (by simp)
  have h1 := hz (x, w.x) (by simp)
  have h2 := hz (y, w.y) (by simp)
  have hdst : w.dst = r := h0.2.1
  rw [hdst] at hd
  have e0 : w.c.map d = some (specBroadcastIdx c d) := h0.2.2 d hd
  have e1 : w.x.map d = some (specBroadcastIdx x d) := h1.2.2 d hd
  have e2 : w.y.map d = some (specBroadcastIdx y d) := h2.2.2 d hd
  simp only [WhereView.select, e0, e1, e2, Option.bind_some, Option.map_some]
  split <;> rfl

/-- no read of `where` leaves its operand: the condition, and whichever of `x` / `y` is selected -/
theorem where_inBounds (c x y : Shape) (w : WhereView) (h : whereView c x y = some w) (cond : Idx → Int) (d : Idx)
    (hd : InShape d w.dst) :
    InShape (specBroadcastIdx c d) c ∧
      ∀ fl i, w.select cond d = some (fl, i) → InShape i (if fl then y else x) := by
  have hb := whereView_some c x y w h
  obtain ⟨r, hr, _, hz⟩ := C06.broadcastArrays_elem [c, x, y] _ hb
  have hdst : w.dst = r := (hz (c, w.c) (by simp)).2.1
  have hbv : ∀ s v, (s, v) ∈ [c, x, y].zip [w.c, w.x, w.y] → broadcastToView s r = some v := by
    intro s v hm
    unfold broadcastArraysViews at hb
    rw [hr] at hb
    exact mapM_zip' _ _ _ hb (s, v) hm
  rw [hdst] at hd
  have inb : ∀ s v, (s, v) ∈ [c, x, y].zip [w.c, w.x, w.y] → InShape (specBroadcastIdx s d) s := by
    intro s v hm
    have hv := hbv s v hm
    have hin := C06.broadcastTo_inBounds s r v hv
    obtain ⟨hs1, hs2⟩ := C06.broadcastTo_shape s r v hv
    have := hin d (by rw [hs2]; exact hd) _ (C06.broadcastTo_index_eq_spec s r v hv d hd)
    rwa [hs1] at this
  refine ⟨inb c w.c (by simp), ?_⟩
  intro fl i hsel
  rw [where_elem c x y w h cond d (by rw [hdst]; exact hd)] at hsel
  split at hsel
  · simp only [Option.some.injEq, Prod.mk.injEq] at hsel
    obtain ⟨rfl, rfl⟩ := hsel
    simpa using inb x w.x (by simp)
  · simp only [Option.some.injEq, Prod.mk.injEq] at hsel
    obtain ⟨rfl, rfl⟩ := hsel
    simpa using inb y w.y (by simp)

example : Pos [2, 1] ∧ Pos [3] ∧ Pos [1] ∧ (whereView [2, 1] [3] [1]).map (·.dst) = some [2, 3] := by decide
example : whereView [2, 3] [2] [1] = none ∧ ¬ Compatible [[2, 3], [2], [1]] :=
  ⟨by decide, fun h => absurd ((where_isSome_iff _ _ _ (by decide) (by decide) (by decide)).2 h) (by decide)⟩
example : (whereView [2, 1] [3] [1]).map (fun w =>
    (w.select (fun i => if i = [1, 0] then 1 else 0) [1, 2], w.select (fun i => if i = [1, 0] then 1 else 0) [0, 2])) =
    some (some (false, [2]), some (true, [0])) := by decide

end NmVerif.Props.C04
