import NmVerif.Index.Diagonal
import NmVerif.Lemmas.SelCommon
import NmVerif.Lemmas.SelUtil
/-
  NmVerif.Lemmas.Diagonal — SPEC side and helper lemmas for `view::diagonal` (any rank, any accepted axis pair).

    `removeTwo l a1 a2`     the list without positions `a1` and `a2` (NumPy: the shape / index without the two diagonal axes)
    `othersAux_eq_removeTwo`, `scatterOthers_*`   the C++ loops (`continue` on the two axes) compute exactly that
    `inShape_eraseIdx_iff`  an index is inside a shape iff one coordinate is and the rest is inside the rest
-/
namespace NmVerif.Index

/-- the list without positions `a1` and `a2` (the larger position is removed first, so the smaller one is unaffected) -/
def removeTwo {α : Type} (l : List α) (a1 a2 : Nat) : List α := (l.eraseIdx (max a1 a2)).eraseIdx (min a1 a2)

theorem othersAux_comm {α : Type} (a1 a2 : Nat) (i : Nat) (l : List α) : othersAux a1 a2 i l = othersAux a2 a1 i l := by
  induction l generalizing i with
  | nil => rfl
  | cons x xs ih => simp only [othersAux, ih, Or.comm]

/-- once the loop counter has passed `a`, only `b` is skipped -/
theorem othersAux_passed {α : Type} (a b i : Nat) (l : List α) (ha : a < i) :
    othersAux a (b + i) i l = l.eraseIdx b := by
  induction l generalizing b i with
  | nil => simp [othersAux]
  | cons x xs ih =>
    cases b with
    | zero =>
      have h1 : i = a ∨ i = 0 + i := Or.inr (by omega)
      simp only [othersAux, h1, if_true, List.eraseIdx_zero, List.tail_cons]
      -- nothing is skipped any more
      clear ih
      have : ∀ (j : Nat) (l : List α), a < j → 0 + i < j → othersAux a (0 + i) j l = l := by
        intro j l
        induction l generalizing j with
        | nil => intros; rfl
        | cons y ys ih2 =>
          intro h1 h2
          have : ¬ (j = a ∨ j = 0 + i) := by omega
          simp only [othersAux, this, if_false]
          rw [ih2 (j + 1) (by omega) (by omega)]
      exact this (i + 1) xs (by omega) (by omega)
    | succ b =>
      have h1 : ¬ (i = a ∨ i = b + 1 + i) := by omega
      simp only [othersAux, h1, if_false, List.eraseIdx_cons_succ]
      have e : b + 1 + i = b + (i + 1) := by omega
      rw [e, ih b (i + 1) (by omega)]

theorem othersAux_lt {α : Type} (a b i : Nat) (l : List α) (hab : a < b) :
    othersAux (a + i) (b + i) i l = (l.eraseIdx b).eraseIdx a := by
  induction l generalizing a b i with
  | nil => simp [othersAux]
  | cons x xs ih =>
    cases b with
    | zero => omega
    | succ b =>
      cases a with
      | zero =>
        have h1 : i = 0 + i ∨ i = b + 1 + i := Or.inl (by omega)
        simp only [othersAux, h1, if_true, List.eraseIdx_cons_succ, List.eraseIdx_zero, List.tail_cons]
        have e : b + 1 + i = b + (i + 1) := by omega
        rw [e, Nat.zero_add, othersAux_passed i b (i + 1) xs (by omega)]
      | succ a =>
        have h1 : ¬ (i = a + 1 + i ∨ i = b + 1 + i) := by omega
        simp only [othersAux, h1, if_false, List.eraseIdx_cons_succ]
        have e1 : a + 1 + i = a + (i + 1) := by omega
        have e2 : b + 1 + i = b + (i + 1) := by omega
        rw [e1, e2, ih a b (i + 1) (by omega)]

/-- the `continue`-loop of `shape_diagonal` keeps exactly the entries off the two (distinct) axes, in order -/
theorem othersAux_eq_removeTwo {α : Type} (a1 a2 : Nat) (l : List α) (hne : a1 ≠ a2) :
    othersAux a1 a2 0 l = removeTwo l a1 a2 := by
  unfold removeTwo
  rcases Nat.lt_or_gt_of_ne hne with h | h
  · have := othersAux_lt a1 a2 0 l h
    simp only [Nat.add_zero] at this
    rw [this, Nat.max_eq_right (by omega), Nat.min_eq_left (by omega)]
  · have := othersAux_lt a2 a1 0 l h
    simp only [Nat.add_zero] at this
    rw [othersAux_comm, this, Nat.max_eq_left (by omega), Nat.min_eq_right (by omega)]

theorem removeTwo_length {α : Type} (l : List α) (a1 a2 : Nat) (hne : a1 ≠ a2) (h1 : a1 < l.length) (h2 : a2 < l.length) :
    (removeTwo l a1 a2).length + 2 = l.length := by
  unfold removeTwo
  rw [List.length_eraseIdx, List.length_eraseIdx]
  have : max a1 a2 < l.length := by omega
  simp only [this, if_true]
  split <;> omega

/-- values at the two skipped positions do not matter to the loop -/
theorem othersAux_set {α : Type} (a1 a2 i k : Nat) (l : List α) (x : α) (hk : i + k = a1 ∨ i + k = a2) :
    othersAux a1 a2 i (l.set k x) = othersAux a1 a2 i l := by
  induction l generalizing i k with
  | nil => simp
  | cons y ys ih =>
    cases k with
    | zero =>
      have : i = a1 ∨ i = a2 := by omega
      simp only [List.set_cons_zero, othersAux, this, if_true]
    | succ k =>
      simp only [List.set_cons_succ, othersAux]
      rw [ih (i + 1) k (by omega)]

theorem scatterOthers_length (a1 a2 i n : Nat) (d : Idx) : (scatterOthers a1 a2 i n d).length = n := by
  induction n generalizing i d with
  | zero => simp [scatterOthers]
  | succ n ih =>
    unfold scatterOthers
    split
    · simp [ih]
    · split <;> simp [ih]

/-- reading the scattered container back with the same skipping loop returns the consumed prefix of `d` -/
theorem othersAux_scatterOthers (a1 a2 : Nat) (n i : Nat) (o rest : Idx)
    (hcount : (othersAux a1 a2 i (List.replicate n ())).length = o.length) :
    othersAux a1 a2 i (scatterOthers a1 a2 i n (o ++ rest)) = o := by
  induction n generalizing i o with
  | zero =>
    simp only [List.replicate_zero, othersAux, List.length_nil] at hcount
    have : o = [] := List.length_eq_zero_iff.1 hcount.symm
    subst this
    simp [scatterOthers, othersAux]
  | succ n ih =>
    unfold scatterOthers
    by_cases hi : i = a1 ∨ i = a2
    · simp only [List.replicate_succ, othersAux, hi, if_true] at hcount ⊢
      exact ih (i + 1) o hcount
    · simp only [List.replicate_succ, othersAux, hi, if_false, List.length_cons] at hcount ⊢
      cases o with
      | nil => simp at hcount
      | cons x xs =>
        simp only [List.cons_append, othersAux, hi, if_false]
        rw [ih (i + 1) xs (by simpa using hcount)]

/-- an index lies in a shape iff its `a`-th coordinate is below the `a`-th extent and the rest lies in the rest -/
theorem inShape_eraseIdx_iff (r : Idx) (s : Shape) (a : Nat) (ha : a < s.length) (hl : r.length = s.length) :
    InShape r s ↔ (∃ x e, r[a]? = some x ∧ s[a]? = some e ∧ x < e) ∧ InShape (r.eraseIdx a) (s.eraseIdx a) := by
  induction s generalizing r a with
  | nil => simp at ha
  | cons e0 s ih =>
    cases r with
    | nil => simp at hl
    | cons x0 r =>
      cases a with
      | zero => simp [InShape]
      | succ a =>
        simp only [List.length_cons, Nat.add_lt_add_iff_right] at ha
        simp only [List.length_cons, Nat.add_right_cancel_iff] at hl
        simp only [InShape, List.getElem?_cons_succ, List.eraseIdx_cons_succ, ih r a ha hl]
        constructor
        · rintro ⟨h0, h1, h2⟩; exact ⟨h1, h0, h2⟩
        · rintro ⟨h1, h0, h2⟩; exact ⟨h0, h1, h2⟩

theorem removeTwo_comm {α : Type} (l : List α) (a1 a2 : Nat) : removeTwo l a1 a2 = removeTwo l a2 a1 := by
  unfold removeTwo; rw [Nat.max_comm, Nat.min_comm]

private theorem inShape_of_removeTwo_lt (r : Idx) (s : Shape) (a b : Nat) (hab : a < b) (hb : b < s.length)
    (hl : r.length = s.length) (xa ea xb eb : Nat)
    (hra : r[a]? = some xa) (hsa : s[a]? = some ea) (hxa : xa < ea)
    (hrb : r[b]? = some xb) (hsb : s[b]? = some eb) (hxb : xb < eb)
    (hrest : InShape ((r.eraseIdx b).eraseIdx a) ((s.eraseIdx b).eraseIdx a)) : InShape r s := by
  rw [inShape_eraseIdx_iff r s b hb hl]
  refine ⟨⟨xb, eb, hrb, hsb, hxb⟩, ?_⟩
  have hl1 : (r.eraseIdx b).length = (s.eraseIdx b).length := by
    rw [List.length_eraseIdx, List.length_eraseIdx]; simp [hl]
  have ha1 : a < (s.eraseIdx b).length := by
    rw [List.length_eraseIdx]; simp only [hb, if_true]; omega
  rw [inShape_eraseIdx_iff _ _ a ha1 hl1]
  refine ⟨⟨xa, ea, ?_, ?_, hxa⟩, hrest⟩
  · rw [List.getElem?_eraseIdx]; simp [hab, hra]
  · rw [List.getElem?_eraseIdx]; simp [hab, hsa]

/-- an index whose two diagonal coordinates are below the two extents and whose remaining coordinates lie in the
    remaining shape lies in the shape -/
theorem inShape_of_removeTwo (r : Idx) (s : Shape) (a1 a2 : Nat) (hne : a1 ≠ a2) (h1 : a1 < s.length) (h2 : a2 < s.length)
    (hl : r.length = s.length) (x1 e1 x2 e2 : Nat)
    (hr1 : r[a1]? = some x1) (hs1 : s[a1]? = some e1) (hx1 : x1 < e1)
    (hr2 : r[a2]? = some x2) (hs2 : s[a2]? = some e2) (hx2 : x2 < e2)
    (hrest : InShape (removeTwo r a1 a2) (removeTwo s a1 a2)) : InShape r s := by
  unfold removeTwo at hrest
  rcases Nat.lt_or_gt_of_ne hne with h | h
  · rw [Nat.max_eq_right (by omega), Nat.min_eq_left (by omega)] at hrest
    exact inShape_of_removeTwo_lt r s a1 a2 h h2 hl x1 e1 x2 e2 hr1 hs1 hx1 hr2 hs2 hx2 hrest
  · rw [Nat.max_eq_left (by omega), Nat.min_eq_right (by omega)] at hrest
    exact inShape_of_removeTwo_lt r s a2 a1 h h1 hl x2 e2 x1 e1 hr2 hs2 hx2 hr1 hs1 hx1 hrest

/-- `index::diagonal` on a destination index `o ++ [j]` (`o` = the coordinates of the remaining axes, `j` = position on
    the diagonal): the result has the source rank, carries `j` (+ the offset part) on the two axes and `o`, in order,
    on the others -/
theorem indexDiagonal_spec (s : Shape) (o : Idx) (j : Nat) (off : Int) (a1 a2 : Nat) (hne : a1 ≠ a2)
    (h1 : a1 < s.length) (h2 : a2 < s.length) (ho : o.length + 2 = s.length) :
    ∃ r, indexDiagonal s (o ++ [j]) off a1 a2 = some r ∧ r.length = s.length ∧
      r[a1]? = some (j + (if off < 0 then (-off).toNat else 0)) ∧
      r[a2]? = some (j + (if off > 0 then off.toNat else 0)) ∧ removeTwo r a1 a2 = o := by
  simp only [indexDiagonal, List.getLast?_append, List.getLast?_singleton, Option.some_or]
  refine ⟨_, rfl, by simp [scatterOthers_length], ?_, ?_, ?_⟩
  · rw [List.getElem?_set]
    have hne' : ¬ a2 = a1 := fun h => hne h.symm
    simp [hne', scatterOthers_length, h1]
  · rw [List.getElem?_set]
    simp [scatterOthers_length, h2]
  · rw [← othersAux_eq_removeTwo a1 a2 _ hne, othersAux_set a1 a2 0 a2 _ _ (by omega),
      othersAux_set a1 a2 0 a1 _ _ (by omega)]
    apply othersAux_scatterOthers
    rw [othersAux_eq_removeTwo a1 a2 _ hne]
    have := removeTwo_length (List.replicate s.length ()) a1 a2 hne (by simpa using h1) (by simpa using h2)
    simp only [List.length_replicate] at this
    omega

end NmVerif.Index
