import NmVerif.Proto
import NmVerif.Utility.IsEqual
namespace NmVerif.Driver.C18
open NmVerif NmVerif.Proto NmVerif.IsEqual

/-- operand `p` ∈ {a,b}: keys `pk` kind (num|idx|nd), `ps` shape, `pd` data, `pw` wrapper (plain|nothing|just|left|right) -/
def operand (a : Args) (p : String) : Option Val := do
  let k ← a.get? (p ++ "k")
  let d ← a.ints (p ++ "d")
  let base ← match k with
    | "num" => d.head?.map Val.num
    | "idx" => some (Val.idx d)
    | "nd" => (a.nats (p ++ "s")).map (fun s => Val.nd s d)
    | _ => none
  match (a.get? (p ++ "w")).getD "plain" with
  | "plain" => some base
  | "nothing" => some Val.nothing
  | "just" => some (Val.just base)
  | "left" => some (Val.left base)
  | "right" => some (Val.right base)
  | _ => none

/-- operand of the `disp` op (dispatch coverage, harness/h_c18b.cpp): kinds num|ct|idx|idxa|idxc|nd|tup,
    wrappers plain|just|nothing|N|left|right|jleft|jright|enothing|lj|ln|mr -/
def operandD (a : Args) (p : String) : Option Val := do
  let w := (a.get? (p ++ "w")).getD "plain"
  if w == "N" then return Val.lit
  let k ← a.get? (p ++ "k")
  let d ← a.ints (p ++ "d")
  let base ← match k with
    | "num" | "ct" => d.head?.map Val.num
    | "idx" | "idxa" | "idxc" => some (Val.idx d)
    | "nd" => (a.nats (p ++ "s")).map (fun s => Val.nd s d)
    | "tup" => d.head?.map (fun h => Val.pair (.num h) (.pair (.nd [d.length - 1] d.tail) .unit))
    | _ => none
  match w with
  | "plain" => some base
  | "nothing" => some Val.nothing
  | "just" => some (Val.just base)
  | "left" => some (Val.left base)
  | "right" => some (Val.right base)
  | "jleft" => some (Val.just (Val.left base))
  | "jright" => some (Val.just (Val.right base))
  | "enothing" => some Val.nothing
  | "lj" => some (Val.left (Val.just base))
  | "ln" => some (Val.left Val.nothing)
  | "mr" => some (Val.right base)
  | _ => none

def fmtBoth : Res → Res → String
  | .val x, .val y => s!"ok {x} rev={y}"
  | .notAccepted, .notAccepted => "not-accepted"
  | .oob, _ => "oob"
  | _, .oob => "oob"
  | .val _, .notAccepted => "ok-only-forward"
  | .notAccepted, .val _ => "ok-only-reverse"

def fmtRes : Res → String
  | .val true => "ok true"
  | .val false => "ok false"
  | .oob => "oob"
  | .notAccepted => "not-accepted"

def handle : Handler := fun op a =>
  match op with
  | "isequal" => orBad do
      let x ← operand a "a"
      let y ← operand a "b"
      pure (fmtRes (isequal x y))
  | "disp" => orBad do
      let x ← operandD a "a"
      let y ← operandD a "b"
      let fn ← a.get? "fn"
      if fn == "isclose" then
        let eps := (a.int "eps").getD defaultEps
        pure (fmtBoth (isclose eps x y) (isclose eps y x))
      else
        pure (fmtBoth (isequal x y) (isequal y x))
  | "isequal_tup" => orBad do
      -- tuple (num, index array) on both sides
      let an ← a.int "an"; let ad ← a.ints "ad"; let bn ← a.int "bn"; let bd ← a.ints "bd"
      pure (fmtRes (isequal (.pair (.num an) (.pair (.idx ad) .unit)) (.pair (.num bn) (.pair (.idx bd) .unit))))
  | "isclose" => orBad do
      let s1 ← a.nats "as"; let d1 ← a.ints "ad"; let s2 ← a.nats "bs"; let d2 ← a.ints "bd"; let eps ← a.int "eps"
      pure (fmtRes (iscloseNd eps s1 d1 s2 d2))
  | _ => none

end NmVerif.Driver.C18
