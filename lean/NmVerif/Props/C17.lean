import NmVerif.NN.PoolLemmas
import NmVerif.NN.ConvLemmas
import NmVerif.NN.Conv2dLemmas
/-
  C17 — neural-network routines equal their reference (PyTorch) definitions.

  MODEL  NmVerif.NN.Conv (view::convnd pipeline), NmVerif.NN.Pool (index::shape_pool2d, slice_pool2d, pool2d window)
  SPEC   NmVerif.NN.Spec (`outSize`, `poolOutSpec`, `specWindow`, `conv1dLoop` with `grpSpec`)
  Floating-point tolerance is the harness's business; these theorems are about shapes and about which source
  elements are combined.
-/
namespace NmVerif.Props.C17
open NmVerif NmVerif.NN

/-! ## pooling -/

/-- `index::shape_pool2d` gives the standard extents on every axis pair, for any number of leading axes, in floor
    mode and in ceil mode — on `PoolDom` (positive kernel that fits, positive stride, and in ceil mode the last
    counted window starts inside the input; outside that domain see `pool_ceil_counterexample`). -/
theorem pool_out_shape_eq_formula (lead : List Nat) (H W kh kw sh sw : Nat) (ceil : Bool)
    (hH : PoolDom H kh sh ceil) (hW : PoolDom W kw sw ceil) :
    shapePool2d (lead ++ [H, W]) [kh, kw] [sh, sw] ceil
      = some (lead ++ [poolOutSpec H kh sh ceil, poolOutSpec W kw sw ceil]) := by
  rw [shapePool2d_append, poolExtent_eq_spec hH, poolExtent_eq_spec hW]

example : shapePool2d [2, 3, 5, 7] [2, 3] [2, 2] true = some [2, 3, 3, 3] := by decide
example : PoolDom 5 2 2 true ∧ PoolDom 7 3 2 true := by decide

/-- floor mode is exactly `⌊(n + 2·0 − 1·(k−1) − 1)/s⌋ + 1` -/
theorem pool_out_shape_floor (n k s : Nat) : poolOutSpec n k s false = outSize n k s 0 1 := rfl

/-- the ceil-mode correction never fires when `stride ≤ kernel`: the whole of that parameter range is in the domain -/
theorem pool_dom_of_stride_le_kernel (n k s : Nat) (ceil : Bool) (hk : 0 < k) (hkn : k ≤ n) (hs : 0 < s) (hsk : s ≤ k) :
    PoolDom n k s ceil := poolDom_of_stride_le_kernel ceil hk hkn hs hsk

/-- known finding pool.ceil-window-outside: extent 4, kernel 1, stride 2, ceil mode — the code counts 3 windows,
    the third starts at index 4 = outside; PyTorch gives 2. -/
theorem pool_ceil_counterexample : poolExtent 4 1 2 true = 3 ∧ poolOutSpec 4 1 2 true = 2 ∧ ¬ PoolDom 4 1 2 true := by decide

/-- the source elements `pool2d_t::operator()` hands to the reducer for output index `li ++ [i, j]` are exactly the
    reference window (rows `s_h·i ≤ a < min(s_h·i + k_h, H)`, columns likewise — overhang clipped), in row-major order. -/
theorem pool_elem_eq_window_reduce (lead li : List Nat) (H W kh kw sh sw i j : Nat) (ceil : Bool)
    (hH : PoolDom H kh sh ceil) (hW : PoolDom W kw sw ceil)
    (hidx : InShape (li ++ [i, j]) (lead ++ [poolExtent H kh sh ceil, poolExtent W kw sw ceil]))
    (hli : InShape li lead) :
    poolWindow (lead ++ [H, W]) [kh, kw] [sh, sw] (li ++ [i, j]) = some (specWindow li H W kh kw sh sw i j) := by
  have hij : InShape [i, j] [poolExtent H kh sh ceil, poolExtent W kw sw ceil] := by
    have := hidx
    clear hidx
    induction lead generalizing li with
    | nil =>
      cases li with
      | nil => simpa using this
      | cons a as => simp [InShape] at hli
    | cons x xs ih =>
      cases li with
      | nil => simp [InShape] at hli
      | cons a as =>
        simp only [InShape] at hli
        simp only [List.cons_append, InShape] at this
        exact ih as hli.2 this.2
  simp only [InShape] at hij
  exact poolWindow_eq_spec hli hH.1 hW.1 (pool_start_lt hH hij.1) (pool_start_lt hW hij.2.1)

example : poolWindow [2, 5, 5] [2, 2] [2, 2] [1, 2, 1] = some [[1, 4, 2], [1, 4, 3]] := by decide

/-- every index of every window lies inside the input (the overhang of ceil mode is clipped, nothing is read
    outside) and the window is non-empty -/
theorem pool_window_in_bounds (lead li : List Nat) (H W kh kw sh sw i j : Nat) (ceil : Bool)
    (hH : PoolDom H kh sh ceil) (hW : PoolDom W kw sw ceil)
    (hidx : InShape (li ++ [i, j]) (lead ++ [poolExtent H kh sh ceil, poolExtent W kw sw ceil]))
    (hli : InShape li lead) :
    ∃ win, poolWindow (lead ++ [H, W]) [kh, kw] [sh, sw] (li ++ [i, j]) = some win
      ∧ win ≠ [] ∧ ∀ x ∈ win, InShape x (lead ++ [H, W]) := by
  refine ⟨_, pool_elem_eq_window_reduce lead li H W kh kw sh sw i j ceil hH hW hidx hli, ?_, specWindow_inShape hli⟩
  have hij : sh * i < H ∧ sw * j < W := by
    have h := pool_elem_eq_window_reduce lead li H W kh kw sh sw i j ceil hH hW hidx hli
    have hij : InShape [i, j] [poolExtent H kh sh ceil, poolExtent W kw sw ceil] := by
      have := hidx
      clear hidx h
      induction lead generalizing li with
      | nil =>
        cases li with
        | nil => simpa using this
        | cons a as => simp [InShape] at hli
      | cons x xs ih =>
        cases li with
        | nil => simp [InShape] at hli
        | cons a as =>
          simp only [InShape] at hli
          simp only [List.cons_append, InShape] at this
          exact ih as hli.2 this.2
    simp only [InShape] at hij
    exact ⟨pool_start_lt hH hij.1, pool_start_lt hW hij.2.1⟩
  intro hnil
  have hmem : li ++ [sh * i, sw * j] ∈ specWindow li H W kh kw sh sw i j := by
    unfold specWindow
    simp only [List.mem_flatMap, List.mem_map, mem_rangeFrom]
    exact ⟨sh * i, ⟨Nat.le_refl _, by have := hH.1; omega⟩, sw * j, ⟨Nat.le_refl _, by have := hW.1; omega⟩, rfl⟩
  rw [hnil] at hmem
  simp at hmem

example : PoolDom 5 3 2 true ∧ poolExtent 5 3 2 true = 2 := by decide


/-! ## convolution -/

/-- an optional integer argument as the C++ receives it: `None` or an `int` -/
def form : Option Nat → PArg
  | none => .none
  | some v => .int v

theorem strideVal_form (s : Option Nat) : strideVal (form s) = strideOf s := by cases s <;> rfl
theorem padVal_form (p : Option Nat) : padVal (form p) = paddingOf p := by cases p <;> rfl
theorem dilV_form (d : Option Nat) : dilV (form d) = dilationOf d := by cases d <;> rfl

theorem posForm_form {s : Option Nat} (h : ∀ v, s = some v → 0 < v) : PosForm (form s) := by
  cases s with
  | none => exact Or.inl rfl
  | some v => exact Or.inr ⟨v, h v rfl, rfl⟩

theorem intForm_form (p : Option Nat) : IntForm (form p) := by
  cases p with
  | none => exact Or.inl rfl
  | some v => exact Or.inr ⟨v, rfl⟩

/-- **conv1d, any stride / zero padding / dilation / groups / optional bias, each passed as `None` or as an integer.**
    For an input `(1, g·Cg, L)`, a weight `(Og·g, Cg, K)` (so `groups = g` is any common divisor of the channel counts)
    and an optional bias `(Og·g)`, with the dilated kernel fitting the padded input, the `view::convnd` pipeline
    (reshape by groups → pad → sliding_window of input and of the dilation-expanded weight → multiply → sum → reshape →
    bias → strided slice) is defined, has the extent `⌊(L + 2p − d(K−1) − 1)/s⌋ + 1`, and every element is the nested
    loop `bias[o] + Σ_c Σ_k xpad[grp(o)·Cg + c, l·s + k·d] · w[o,c,k]` — with the group of output channel `o` being
    `o % g` (`grpCode`), which is what the code does.  Quantified over all `x`, `w` of integers, so the equality of the
    two sums is an identity of the (input index, weight index) term sets. -/
theorem conv1d_eq_code_loop (x w : Arr Int) (bias : Option (Arr Int)) (Og g Cg L K : Nat) (stride padding dilation : Option Nat)
    (hx : x.shape = [1, g * Cg, L]) (hw : w.shape = [Og * g, Cg, K]) (hb : ∀ b, bias = some b → b.shape = [Og * g])
    (hOg : 0 < Og) (hg : 0 < g) (hK : 0 < K)
    (hs : ∀ v, stride = some v → 0 < v) (hd : ∀ v, dilation = some v → 0 < v)
    (hfit : Fits L K (paddingOf padding) (dilationOf dilation)) :
    ∃ r, convnd 1 x w bias (form stride) (form padding) (form dilation) g = .ok r ∧
      r.shape = [1, Og * g, outSize L K (strideOf stride) (paddingOf padding) (dilationOf dilation)] ∧
      ∀ o l, o < Og * g → l < outSize L K (strideOf stride) (paddingOf padding) (dilationOf dilation) →
        r.get [0, o, l] = conv1dLoop (grpCode g) x w bias L Cg K (strideOf stride) (paddingOf padding) (dilationOf dilation) o l := by
  have hfit' : (K - 1) * dilV (form dilation) + 1 ≤ L + 2 * padVal (form padding) := by
    rw [dilV_form, padVal_form, Nat.mul_comm]; exact hfit
  have := convnd1_eq_codeLoop (bias := bias) hx hw hb hOg hg hK (posForm_form hs) (intForm_form padding) (posForm_form hd) hfit'
  simpa only [strideVal_form, padVal_form, dilV_form] using this

/-- output shape of conv1d = the standard formula, for all parameters (a corollary of `conv1d_eq_code_loop`; the
    shape does not depend on the group assignment, so it holds for every `groups`) -/
theorem conv_out_shape_eq_formula (x w : Arr Int) (bias : Option (Arr Int)) (Og g Cg L K : Nat) (stride padding dilation : Option Nat)
    (hx : x.shape = [1, g * Cg, L]) (hw : w.shape = [Og * g, Cg, K]) (hb : ∀ b, bias = some b → b.shape = [Og * g])
    (hOg : 0 < Og) (hg : 0 < g) (hK : 0 < K)
    (hs : ∀ v, stride = some v → 0 < v) (hd : ∀ v, dilation = some v → 0 < v)
    (hfit : Fits L K (paddingOf padding) (dilationOf dilation)) :
    ∃ r, convnd 1 x w bias (form stride) (form padding) (form dilation) g = .ok r ∧
      r.shape = [1, Og * g, outSize L K (strideOf stride) (paddingOf padding) (dilationOf dilation)] := by
  obtain ⟨r, h1, h2, _⟩ := conv1d_eq_code_loop x w bias Og g Cg L K stride padding dilation hx hw hb hOg hg hK hs hd hfit
  exact ⟨r, h1, h2⟩

/-- **conv1d = the PyTorch nested loop** (group of output channel `o` is `o / (O/groups)`) on the domain where the
    code's group assignment agrees with it: `groups = 1`, or one output channel per group (`O = groups`, e.g.
    depthwise).  Any stride, padding, dilation, bias.  Outside: `conv1d_groups_counterexample`. -/
theorem conv1d_eq_nested_loop (x w : Arr Int) (bias : Option (Arr Int)) (Og g Cg L K : Nat) (stride padding dilation : Option Nat)
    (hx : x.shape = [1, g * Cg, L]) (hw : w.shape = [Og * g, Cg, K]) (hb : ∀ b, bias = some b → b.shape = [Og * g])
    (hOg : 0 < Og) (hg : 0 < g) (hK : 0 < K)
    (hs : ∀ v, stride = some v → 0 < v) (hd : ∀ v, dilation = some v → 0 < v)
    (hfit : Fits L K (paddingOf padding) (dilationOf dilation))
    (hdom : g = 1 ∨ Og = 1) :
    ∃ r, convnd 1 x w bias (form stride) (form padding) (form dilation) g = .ok r ∧
      r.shape = [1, Og * g, outSize L K (strideOf stride) (paddingOf padding) (dilationOf dilation)] ∧
      ∀ o l, o < Og * g → l < outSize L K (strideOf stride) (paddingOf padding) (dilationOf dilation) →
        r.get [0, o, l] = conv1dLoop (grpSpec (Og * g) g) x w bias L Cg K (strideOf stride) (paddingOf padding) (dilationOf dilation) o l := by
  obtain ⟨r, h1, h2, h3⟩ := conv1d_eq_code_loop x w bias Og g Cg L K stride padding dilation hx hw hb hOg hg hK hs hd hfit
  refine ⟨r, h1, h2, fun o l ho hl => ?_⟩
  rw [h3 o l ho hl]
  exact conv1dLoop_congr_grp (grpCode_eq_grpSpec hdom ho) x w bias L Cg K _ _ _ l

/-- **conv2d** (input `(1, g·Cg, H, W)`, weight `(Og·g, Cg, KH, KW)`, optional bias; stride / padding / dilation each `None`
    or one integer applied to both planes): the `view::convnd` pipeline with `n_planes = 2` is defined, has the extents
    `⌊(H + 2p − d(KH−1) − 1)/s⌋ + 1`, `⌊(W + 2p − d(KW−1) − 1)/s⌋ + 1`, and every element is the nested loop
    `bias[o] + Σ_c Σ_kh Σ_kw xpad[grp(o)·Cg + c, i·s + kh·d, j·s + kw·d] · w[o,c,kh,kw]` with `grp(o) = o % g` (the code's
    assignment).  The pair forms `(s_h, s_w)`, `(p_h, p_w)`, `(d_h, d_w)` are covered by the correspondence run only
    (and the dilation pair is a known finding). -/
theorem conv2d_eq_code_loop (x w : Arr Int) (bias : Option (Arr Int)) (Og g Cg H W KH KW : Nat) (stride padding dilation : Option Nat)
    (hx : x.shape = [1, g * Cg, H, W]) (hw : w.shape = [Og * g, Cg, KH, KW]) (hb : ∀ b, bias = some b → b.shape = [Og * g])
    (hOg : 0 < Og) (hg : 0 < g) (hKH : 0 < KH) (hKW : 0 < KW)
    (hs : ∀ v, stride = some v → 0 < v) (hd : ∀ v, dilation = some v → 0 < v)
    (hfH : Fits H KH (paddingOf padding) (dilationOf dilation)) (hfW : Fits W KW (paddingOf padding) (dilationOf dilation)) :
    ∃ r, convnd 2 x w bias (form stride) (form padding) (form dilation) g = .ok r ∧
      r.shape = [1, Og * g, outSize H KH (strideOf stride) (paddingOf padding) (dilationOf dilation),
                 outSize W KW (strideOf stride) (paddingOf padding) (dilationOf dilation)] ∧
      ∀ o i j, o < Og * g → i < outSize H KH (strideOf stride) (paddingOf padding) (dilationOf dilation) →
        j < outSize W KW (strideOf stride) (paddingOf padding) (dilationOf dilation) →
        r.get [0, o, i, j] = conv2dLoop (grpCode g) x w bias H W Cg KH KW (strideOf stride) (paddingOf padding) (dilationOf dilation) o i j := by
  have hfH' : (KH - 1) * dilV (form dilation) + 1 ≤ H + 2 * padVal (form padding) := by
    rw [dilV_form, padVal_form, Nat.mul_comm]; exact hfH
  have hfW' : (KW - 1) * dilV (form dilation) + 1 ≤ W + 2 * padVal (form padding) := by
    rw [dilV_form, padVal_form, Nat.mul_comm]; exact hfW
  have := convnd2_eq_codeLoop (bias := bias) hx hw hb hOg hg hKH hKW (posForm_form hs) (intForm_form padding) (posForm_form hd) hfH' hfW'
  simpa only [strideVal_form, padVal_form, dilV_form] using this

/-- conv2d output shape = the standard formula on both planes, every `groups` -/
theorem conv2d_out_shape_eq_formula (x w : Arr Int) (bias : Option (Arr Int)) (Og g Cg H W KH KW : Nat) (stride padding dilation : Option Nat)
    (hx : x.shape = [1, g * Cg, H, W]) (hw : w.shape = [Og * g, Cg, KH, KW]) (hb : ∀ b, bias = some b → b.shape = [Og * g])
    (hOg : 0 < Og) (hg : 0 < g) (hKH : 0 < KH) (hKW : 0 < KW)
    (hs : ∀ v, stride = some v → 0 < v) (hd : ∀ v, dilation = some v → 0 < v)
    (hfH : Fits H KH (paddingOf padding) (dilationOf dilation)) (hfW : Fits W KW (paddingOf padding) (dilationOf dilation)) :
    ∃ r, convnd 2 x w bias (form stride) (form padding) (form dilation) g = .ok r ∧
      r.shape = [1, Og * g, outSize H KH (strideOf stride) (paddingOf padding) (dilationOf dilation),
                 outSize W KW (strideOf stride) (paddingOf padding) (dilationOf dilation)] := by
  obtain ⟨r, h1, h2, _⟩ := conv2d_eq_code_loop x w bias Og g Cg H W KH KW stride padding dilation hx hw hb hOg hg hKH hKW hs hd hfH hfW
  exact ⟨r, h1, h2⟩

/-- **conv2d = the PyTorch nested loop** on the domain `groups = 1` or one output channel per group -/
theorem conv2d_eq_nested_loop (x w : Arr Int) (bias : Option (Arr Int)) (Og g Cg H W KH KW : Nat) (stride padding dilation : Option Nat)
    (hx : x.shape = [1, g * Cg, H, W]) (hw : w.shape = [Og * g, Cg, KH, KW]) (hb : ∀ b, bias = some b → b.shape = [Og * g])
    (hOg : 0 < Og) (hg : 0 < g) (hKH : 0 < KH) (hKW : 0 < KW)
    (hs : ∀ v, stride = some v → 0 < v) (hd : ∀ v, dilation = some v → 0 < v)
    (hfH : Fits H KH (paddingOf padding) (dilationOf dilation)) (hfW : Fits W KW (paddingOf padding) (dilationOf dilation))
    (hdom : g = 1 ∨ Og = 1) :
    ∃ r, convnd 2 x w bias (form stride) (form padding) (form dilation) g = .ok r ∧
      r.shape = [1, Og * g, outSize H KH (strideOf stride) (paddingOf padding) (dilationOf dilation),
                 outSize W KW (strideOf stride) (paddingOf padding) (dilationOf dilation)] ∧
      ∀ o i j, o < Og * g → i < outSize H KH (strideOf stride) (paddingOf padding) (dilationOf dilation) →
        j < outSize W KW (strideOf stride) (paddingOf padding) (dilationOf dilation) →
        r.get [0, o, i, j] = conv2dLoop (grpSpec (Og * g) g) x w bias H W Cg KH KW (strideOf stride) (paddingOf padding) (dilationOf dilation) o i j := by
  obtain ⟨r, h1, h2, h3⟩ := conv2d_eq_code_loop x w bias Og g Cg H W KH KW stride padding dilation hx hw hb hOg hg hKH hKW hs hd hfH hfW
  refine ⟨r, h1, h2, fun o i j ho hi hj => ?_⟩
  rw [h3 o i j ho hi hj]
  exact conv2dLoop_congr_grp (grpCode_eq_grpSpec hdom ho) x w bias H W Cg KH KW _ _ _ i j

/-- non-vacuity for conv2d: C = 2 (groups 2, depthwise), 4×5 input, 2×3 kernel, stride 2, padding 1, dilation 1 -/
example : ∃ r, convnd 2 ⟨[1, 2, 4, 5], fun _ => 1⟩ ⟨[2, 1, 2, 3], fun _ => 1⟩ none (form (some 2)) (form (some 1)) (form none) 2 = .ok r ∧
    r.shape = [1, 2, 3, 3] := by
  obtain ⟨r, h1, h2⟩ := conv2d_out_shape_eq_formula ⟨[1, 2, 4, 5], fun _ => 1⟩ ⟨[2, 1, 2, 3], fun _ => 1⟩ none 1 2 1 4 5 2 3 (some 2) (some 1) none
    rfl rfl (by intro b h; cases h) (by decide) (by decide) (by decide) (by decide) (by intro v h; cases h; decide) (by intro v h; cases h)
    (by decide) (by decide)
  exact ⟨r, h1, h2⟩

/-- witnesses used by the examples / counterexamples: `x[0,c,j] = 10·c + j + 1`, `w[o,c,k] = 100·o + 10·c + k + 1` -/
def xW (shape : Shape) : Arr Int := ⟨shape, fun i => match i with | [_, c, j] => (10 * c + j + 1 : Nat) | _ => 0⟩
def wW (shape : Shape) : Arr Int := ⟨shape, fun i => match i with | [o, c, k] => (100 * o + 10 * c + k + 1 : Nat) | _ => 0⟩

/-- non-vacuity: C = 4, groups = 2, O = 2, L = 5, K = 2, stride 2, padding 1, dilation 2 — defined, shape (1,2,3), and
    element (0,1,2) is the nested loop -/
example : ∃ r, convnd 1 (xW [1, 4, 5]) (wW [2, 2, 2]) none (form (some 2)) (form (some 1)) (form (some 2)) 2 = .ok r ∧
    r.shape = [1, 2, 3] ∧ r.get [0, 1, 2] = conv1dLoop (grpSpec 2 2) (xW [1, 4, 5]) (wW [2, 2, 2]) none 5 2 2 2 1 2 1 2 := by
  obtain ⟨r, h1, h2, h3⟩ := conv1d_eq_nested_loop (xW [1, 4, 5]) (wW [2, 2, 2]) none 1 2 2 5 2 (some 2) (some 1) (some 2)
    rfl rfl (by intro b h; cases h) (by decide) (by decide) (by decide) (by intro v h; cases h; decide) (by intro v h; cases h; decide)
    (by decide) (Or.inr rfl)
  exact ⟨r, h1, h2, h3 1 2 (by decide) (by decide)⟩

/-- element read from an evaluation (0 when undefined) -/
def Res.getD (r : Res (Arr Int)) (i : Idx) : Int := match r with | .ok a => a.get i | _ => 0
def Res.shapeD (r : Res (Arr Int)) : Shape := match r with | .ok a => a.shape | _ => []

/-- known finding conv.groups-interleaved: C = 2, O = 4, groups = 2, K = L = 1, weights all 1, `x = (1, 2)`.
    Output channel 1 belongs to group 0 (PyTorch: reads `x[0] = 1`) but the code computes it from group `1 % 2 = 1`
    (reads `x[1] = 2`). -/
theorem conv1d_groups_counterexample :
    let x : Arr Int := ⟨[1, 2, 1], fun i => match i with | [_, c, _] => (c + 1 : Nat) | _ => 0⟩
    let w : Arr Int := ⟨[4, 1, 1], fun _ => 1⟩
    Res.getD (convnd 1 x w none .none .none .none 2) [0, 1, 0] = 2
      ∧ conv1dLoop (grpSpec 4 2) x w none 1 1 1 1 0 1 1 0 = 1
      ∧ conv1dLoop (grpCode 2) x w none 1 1 1 1 0 1 1 0 = 2 := by
  decide

/-- known finding conv.batch-gt-1: a batch of 2 has no defined result (`conv_reshape_input` drops the batch extent,
    the reshape is Nothing) — with padding None the view is Nothing, with an integer padding the Nothing is unwrapped. -/
theorem conv1d_batch_counterexample :
    (convnd 1 (xW [2, 1, 2]) (wW [1, 1, 1]) none .none .none .none 1).isOk = false
      ∧ (convnd 1 (xW [2, 1, 2]) (wW [1, 1, 1]) none .none (.int 0) .none 1).isOk = false := by
  decide

/-- known finding conv2d.dilation-pair-reversed: input (1,1,1,3), kernel (1,2), dilation pair (d_h, d_w) = (2, 1):
    the reference extent is (1, 2); the code dilates W by `d_h` and obtains (1, 1). -/
theorem conv2d_dilation_pair_counterexample :
    let x : Arr Int := ⟨[1, 1, 1, 3], fun _ => 1⟩
    let w : Arr Int := ⟨[1, 1, 1, 2], fun _ => 1⟩
    Res.shapeD (convnd 2 x w none .none .none (.arr [2, 1]) 1) = [1, 1, 1, 1]
      ∧ [1, 1, outSize 1 1 1 0 2, outSize 3 2 1 0 1] = [1, 1, 1, 2] := by
  decide

end NmVerif.Props.C17
