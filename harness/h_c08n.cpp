// C08 harness, TU 2: view::reduce / view::accumulate with the library's own binary ufunc functors
// (add, multiply, maximum, minimum, subtract, bitwise and/or/xor, logical and/or) on int arrays.
#include "nmtools/array/view/ufuncs/add.hpp"
#include "nmtools/array/view/ufuncs/multiply.hpp"
#include "nmtools/array/view/ufuncs/maximum.hpp"
#include "nmtools/array/view/ufuncs/minimum.hpp"
#include "nmtools/array/view/ufuncs/subtract.hpp"
#include "nmtools/array/view/ufuncs/bitwise_and.hpp"
#include "nmtools/array/view/ufuncs/bitwise_or.hpp"
#include "nmtools/array/view/ufuncs/bitwise_xor.hpp"
#include "nmtools/array/view/ufuncs/logical_and.hpp"
#include "nmtools/array/view/ufuncs/logical_or.hpp"
#include "nmtools/array/ndarray.hpp"
#include "c08_common.hpp"
#include <vector>

namespace nm = nmtools; namespace na = nmtools::array; namespace view = nmtools::view;
using namespace proto;
using iarr_t = na::ndarray_t<std::vector<int>, std::vector<size_t>>;

template <typename op_t> static std::string do_reduce(op_t op, const iarr_t& arr, const Args& a) {
    bool keep = c08::keepdims_of(a);
    return c08::with_axis(a, [&](const auto& axis) {
        return c08::with_init<int>(a, [&](auto init) { return c08::emit(view::reduce(op, arr, axis, nm::None, init, keep)); });
    }, /*allow_int=*/false);
}
template <typename op_t> static std::string do_accumulate(op_t op, const iarr_t& arr, const Args& a) {
    int axis = (int)integer(a, "axis");
    return c08::emit(view::accumulate(op, arr, axis));
}

std::string handle(const std::string& op, const Args& a) {
    if (op != "reduce" && op != "accumulate") return "unknown-op";
    auto arr = c08::make_array<iarr_t>(a);
    const std::string& f = get(a, "op");
#define OP(NAME, TYPE) if (f == NAME) return op == "reduce" ? do_reduce(TYPE{}, arr, a) : do_accumulate(TYPE{}, arr, a);
    OP("add", view::add_t<>) OP("mul", view::multiply_t<>) OP("max", view::maximum_t<>) OP("min", view::minimum_t<>)
    OP("sub", view::subtract_t<>) OP("band", view::bitwise_and_t) OP("bor", view::bitwise_or_t) OP("bxor", view::bitwise_xor_t)
    OP("land", view::logical_and_t) OP("lor", view::logical_or_t)
#undef OP
    return "unknown-op";
}
