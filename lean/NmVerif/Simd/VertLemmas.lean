import NmVerif.Simd.Eval
import NmVerif.Simd.SeqLemmas
import NmVerif.Simd.EnumLemmas
import NmVerif.Simd.HorizLemmas
/-
  VERTICAL reduction (`simdReduceVertical`): every input row `i` is accumulated, register by register and then
  cell by cell, into output row `i / A`.  Helper lemmas.
-/
namespace NmVerif.Simd
open NmVerif

variable {α : Type}

/-- steps `a … a + C/N + C%N − 1`: `C/N` registers then `C%N` single cells tile `[base, base + C)` -/
theorem contig_packed_then_scalar (N C base a : Nat) (pos len : Nat → Nat)
    (h1 : ∀ j, j < C / N → pos (a + j) = base + j * N ∧ len (a + j) = N)
    (h2 : ∀ j, C / N ≤ j → j < C / N + C % N → pos (a + j) = base + C / N * N + (j - C / N) ∧ len (a + j) = 1) :
    Contig pos len base (List.range' a (C / N + C % N)) (base + C) := by
  rw [← List.range'_append (step := 1)]
  simp only [Nat.one_mul]
  have hC : C = C / N * N + C % N := by
    have := Nat.div_add_mod C N; rw [Nat.mul_comm] at this; omega
  refine Contig.append (m := base + C / N * N) ?_ ?_
  · apply Contig.arith N
    intro k hk1 hk2
    obtain ⟨j, rfl⟩ : ∃ j, k = a + j := ⟨k - a, by omega⟩
    rw [Nat.add_sub_cancel_left]
    exact h1 j (by omega)
  · have e : base + C = (base + C / N * N) + (C % N) * 1 := by omega
    rw [e]
    apply Contig.arith 1
    intro k hk1 hk2
    obtain ⟨j, rfl⟩ : ∃ j, k = a + C / N + j := ⟨k - (a + C / N), by omega⟩
    have := h2 (C / N + j) (by omega) (by omega)
    rw [Nat.add_assoc]
    refine ⟨?_, this.2⟩
    rw [this.1]; omega

def vCs (N C : Nat) : Nat := C / N + C % N

/-- column at which step `j` of a row starts -/
def vcol (N C j : Nat) : Nat := if j < C / N then j * N else C / N * N + (j - C / N)

theorem reductionAt_v (N : Nat) (outShape inpShape : List Nat) (axis i j : Nat)
    (hj : j < vCs N (reductionNdReshape .vertical inpShape axis).2) :
    reductionAt .vertical N outShape inpShape axis (i * vCs N (reductionNdReshape .vertical inpShape axis).2 + j)
      = reduction2d .vertical N i j (reductionNdReshape .vertical outShape axis)
          (reductionNdReshape .vertical inpShape axis) := by
  unfold reductionAt reduction2dShape
  simp only
  have := div_mod_of_row i j (vCs N (reductionNdReshape .vertical inpShape axis).2) hj
  unfold vCs at this hj ⊢
  rw [this.1, this.2]

/-- closed form of `reduction_2d` VERTICAL at step `(i, j)`: the odd `> n_ops` test of the C++ selects
    exactly the register column `j·N` for `j < C/N` and the scalar column `C/N·N + (j − C/N)` after it -/
theorem reduction2d_v (N i j Ro R C A : Nat) (hN : 0 < N) (hA : 0 < A) (hRo : 0 < Ro) (hR : R = Ro * A)
    (hj : j < vCs N C) :
    reduction2d .vertical N i j (Ro, C) (R, C)
      = some (⟨if j < C / N then Tag.ACCUMULATE_PACKED else Tag.ACCUMULATE, (i / A) * C + vcol N C j⟩,
              ⟨if j < C / N then Tag.PACKED else Tag.SCALAR, i * C + vcol N C j⟩) := by
  have hC : C = C / N * N + C % N := by
    have := Nat.div_add_mod C N; rw [Nat.mul_comm] at this; omega
  have hmod := Nat.mod_lt C hN
  have hdiv : R / Ro = A := by rw [hR]; exact Nat.mul_div_cancel_left A hRo
  unfold reduction2d vcol
  simp only [hdiv]
  have hA0 : ¬ (A = 0) := by omega
  simp only [hA0, if_false]
  by_cases hp : j < C / N
  · have h1 : (j + 1) * N ≤ C / N * N := Nat.mul_le_mul_right N hp
    rw [Nat.succ_mul] at h1
    have hng : ¬ (j * N > C) := by omega
    have hle : j * N + N ≤ C := by omega
    simp [hp, hng, hle]
  · have hle : ¬ (j * N + N ≤ C) := by
      have h1 : C / N * N ≤ j * N := Nat.mul_le_mul_right N (by omega)
      omega
    by_cases he : j = C / N
    · have hng : ¬ (j * N > C) := by rw [he]; omega
      subst he
      have hle' : ¬ (C / N * N + N ≤ C) := hle
      simp [hng, hle']
    · have hgt : j * N > C := by
        have h1 : (C / N + 1) * N ≤ j * N := Nat.mul_le_mul_right N (by omega)
        rw [Nat.succ_mul] at h1; omega
      simp [hp, hgt, hle]

/-! ### buffer facts for the read-modify-write row pass -/

theorem loadu_prefix (pre rest : List α) (p w : Nat) (hp : pre.length = p) (hw : w ≤ rest.length) :
    loadu (pre ++ rest) p w = some (rest.take w) := by
  subst hp
  rw [loadu_eq (by rw [List.length_append]; omega)]
  simp

theorem drop_prefix (pre X : List α) (p : Nat) (hp : pre.length = p) (a : Nat) :
    (pre ++ X).drop (p + a) = X.drop a := by
  subst hp; simp

theorem drop_take_row (buf : List α) (C ρ a w : Nat) (h1 : a + w ≤ C) (h2 : ρ * C + C ≤ buf.length) :
    (buf.drop (ρ * C + a)).take w = ((rowOf buf C ρ).drop a).take w := by
  unfold rowOf
  rw [List.drop_take, List.take_take, List.drop_drop, Nat.min_eq_left (by omega)]

theorem readAt_of_loadu1 (buf : List α) (q : Nat) (x : α) (h : loadu buf q 1 = some [x]) : readAt buf q = some x := by
  unfold loadu at h
  split at h
  · rename_i hq
    have hlt : q < buf.length := by omega
    have e : (buf.drop q).take 1 = [buf[q]] := by rw [List.drop_eq_getElem_cons hlt]; rfl
    rw [e] at h
    have hx : buf[q] = x := by simpa using h
    simp [readAt, List.getElem?_eq_getElem hlt, hx]
  · simp at h

theorem writeAt_eq_storeu (o : List α) (p : Nat) (v : α) : writeAt o p v = storeu o p [v] := by
  unfold writeAt storeu
  by_cases h : p < o.length
  · have h' : p + [v].length ≤ o.length := by simp; omega
    rw [if_pos h, if_pos h', List.set_eq_take_append_cons_drop, if_pos h]
    simp
  · have h' : ¬ (p + [v].length ≤ o.length) := by simp; omega
    rw [if_neg h, if_neg h']

theorem exists_singleton (l : List α) (h : l.length = 1) : ∃ x, l = [x] := by
  match l, h with
  | [x], _ => exact ⟨x, rfl⟩

/-- output row `ρ` accumulates input row `i`, cell by cell; all other cells are unchanged -/
def rowUpd (op : α → α → α) (inp : List α) (C : Nat) (o : List α) (ρ i : Nat) : List α :=
  o.take (ρ * C) ++ List.zipWith op (rowOf o C ρ) (rowOf inp C i) ++ o.drop (ρ * C + C)

theorem rowUpd_length (op : α → α → α) (inp : List α) (C : Nat) (o : List α) (ρ i : Nat)
    (ho : ρ * C + C ≤ o.length) (hi : i * C + C ≤ inp.length) : (rowUpd op inp C o ρ i).length = o.length := by
  unfold rowUpd
  rw [List.length_append, List.length_append, List.length_take, List.length_zipWith, rowOf_length o C ρ ho,
    rowOf_length inp C i hi, List.length_drop]
  omega

/-- a block of the updated row -/
theorem rowUpd_block (op : α → α → α) (inp : List α) (C : Nat) (o : List α) (ρ i a w : Nat)
    (ho : ρ * C + C ≤ o.length) (hi : i * C + C ≤ inp.length) (haw : a + w ≤ C) :
    ((rowUpd op inp C o ρ i).drop (ρ * C + a)).take w
      = List.zipWith op (((rowOf o C ρ).drop a).take w) (((rowOf inp C i).drop a).take w) := by
  have hz : (List.zipWith op (rowOf o C ρ) (rowOf inp C i)).length = C := by
    rw [List.length_zipWith, rowOf_length o C ρ ho, rowOf_length inp C i hi, Nat.min_self]
  unfold rowUpd
  have ht : (o.take (ρ * C)).length = ρ * C := by rw [List.length_take]; omega
  rw [List.append_assoc, drop_prefix _ _ _ ht]
  rw [List.drop_append_of_le_length (by omega), List.take_append_of_le_length (by rw [List.length_drop]; omega)]
  rw [List.drop_zipWith, List.take_zipWith]

theorem rowUpd_take (op : α → α → α) (inp : List α) (C : Nat) (o : List α) (ρ i : Nat) (ho : ρ * C + C ≤ o.length) :
    (rowUpd op inp C o ρ i).take (ρ * C) = o.take (ρ * C) := by
  unfold rowUpd
  rw [List.append_assoc, List.take_append_of_le_length (by rw [List.length_take]; omega), List.take_take, Nat.min_self]

theorem vcol_bound (N C j : Nat) (hN : 0 < N) (hj : j < vCs N C) :
    vcol N C j + (if j < C / N then N else 1) ≤ C := by
  have hC : C = C / N * N + C % N := by
    have := Nat.div_add_mod C N; rw [Nat.mul_comm] at this; omega
  unfold vcol vCs at *
  by_cases hp : j < C / N
  · have h1 : (j + 1) * N ≤ C / N * N := Nat.mul_le_mul_right N hp
    rw [Nat.succ_mul] at h1
    simp only [hp, if_true]; omega
  · simp only [hp, if_false]; omega

/-- one input row through the VERTICAL enumerator = `rowUpd` on output row `i / A` -/
theorem vert_row (N : Nat) (packOp : List α → List α → List α) (op : α → α → α)
    (inp : List α) (outShape inpShape : List Nat) (axis R C Ro A : Nat)
    (hp : ∀ xs ys, xs.length = N → ys.length = N → packOp xs ys = List.zipWith op xs ys)
    (hN : 0 < N) (hA : 0 < A) (hRo : 0 < Ro) (hR : R = Ro * A)
    (hRC : reductionNdReshape .vertical inpShape axis = (R, C))
    (hOut : reductionNdReshape .vertical outShape axis = (Ro, C))
    (i : Nat) (hi : i < R) (hinp : inp.length = R * C) (o : List α) (ho : o.length = Ro * C) :
    (List.range (vCs N C)).foldlM (fun s j => vertStep N packOp op inp outShape inpShape axis s (i * vCs N C + j)) o
      = some (rowUpd op inp C o (i / A) i) := by
  have hρ : i / A < Ro := by rw [Nat.div_lt_iff_lt_mul hA]; rw [hR] at hi; exact hi
  have hoC : (i / A) * C + C ≤ o.length := by
    have : (i / A + 1) * C ≤ Ro * C := Nat.mul_le_mul_right C hρ
    rw [Nat.succ_mul] at this; omega
  have hiC : i * C + C ≤ inp.length := by
    have : (i + 1) * C ≤ R * C := Nat.mul_le_mul_right C hi
    rw [Nat.succ_mul] at this; omega
  have hlen := rowUpd_length op inp C o (i / A) i hoC hiC
  have hcontig : Contig (fun j => (i / A) * C + vcol N C j) (fun j => if j < C / N then N else 1)
      ((i / A) * C) (List.range (vCs N C)) ((i / A) * C + C) := by
    rw [List.range_eq_range']
    apply contig_packed_then_scalar N C ((i / A) * C) 0
    · intro j hj
      exact ⟨by simp only [Nat.zero_add, vcol, if_pos hj], by simp only [Nat.zero_add, if_pos hj]⟩
    · intro j h1 h2
      have hn : ¬ (j < C / N) := by omega
      refine ⟨by simp only [Nat.zero_add, vcol, if_neg hn]; omega, by simp only [Nat.zero_add, if_neg hn]⟩
  have := seq_blocks (rowUpd op inp C o (i / A) i) o (fun j => (i / A) * C + vcol N C j)
    (fun j => if j < C / N then N else 1)
    (fun s j => vertStep N packOp op inp outShape inpShape axis s (i * vCs N C + j)) hlen
    (List.range (vCs N C)) _ _ hcontig hoC
    (by
      intro j hj hb
      have hjlt : j < vCs N C := by simpa using hj
      have hvb := vcol_bound N C j hN hjlt
      unfold vertStep
      have hat := reductionAt_v N outShape inpShape axis i j (by rw [hRC]; exact hjlt)
      rw [hRC, hOut] at hat
      simp only at hat
      rw [hat, reduction2d_v N i j Ro R C A hN hA hRo hR hjlt]
      simp only [Option.bind_eq_bind, Option.bind_some]
      have hpre : ((rowUpd op inp C o (i / A) i).take ((i / A) * C + vcol N C j)).length = (i / A) * C + vcol N C j := by
        rw [List.length_take, hlen]; omega
      by_cases hpk : j < C / N
      · simp only [hpk, if_true] at hvb ⊢
        rw [loadu_row inp C i (vcol N C j) N hvb hiC]
        rw [loadu_prefix _ _ _ N hpre (by rw [List.length_drop]; omega)]
        rw [drop_take_row o C (i / A) (vcol N C j) N hvb hoC]
        simp only [Option.bind_some]
        rw [hp _ _ (by rw [List.length_take, List.length_drop, rowOf_length o C _ hoC]; omega)
              (by rw [List.length_take, List.length_drop, rowOf_length inp C _ hiC]; omega)]
        rw [rowUpd_block op inp C o (i / A) i (vcol N C j) N hoC hiC hvb]
      · have hne : ¬ (Tag.ACCUMULATE = Tag.ACCUMULATE_PACKED) := by decide
        simp only [hpk, if_false, hne, if_true] at hvb ⊢
        obtain ⟨x, hx⟩ := exists_singleton (((rowOf inp C i).drop (vcol N C j)).take 1)
          (by rw [List.length_take, List.length_drop, rowOf_length inp C _ hiC]; omega)
        obtain ⟨y, hy⟩ := exists_singleton (((rowOf o C (i / A)).drop (vcol N C j)).take 1)
          (by rw [List.length_take, List.length_drop, rowOf_length o C _ hoC]; omega)
        rw [readAt_of_loadu1 inp _ x (by rw [loadu_row inp C i (vcol N C j) 1 hvb hiC, hx])]
        rw [readAt_of_loadu1 _ _ y (by
          rw [loadu_prefix _ _ _ 1 hpre (by rw [List.length_drop]; omega),
              drop_take_row o C (i / A) (vcol N C j) 1 hvb hoC, hy])]
        simp only [Option.bind_some]
        rw [writeAt_eq_storeu, rowUpd_block op inp C o (i / A) i (vcol N C j) 1 hoC hiC hvb, hx, hy]
        rfl)
  rw [rowUpd_take op inp C o (i / A) i hoC, List.take_append_drop] at this
  rw [this]
  congr 1
  unfold rowUpd
  have ht : (o.take (i / A * C)).length = i / A * C := by rw [List.length_take]; omega
  have hz : (List.zipWith op (rowOf o C (i / A)) (rowOf inp C i)).length = C := by
    rw [List.length_zipWith, rowOf_length o C _ hoC, rowOf_length inp C i hiC, Nat.min_self]
  rw [List.take_left' (by rw [List.length_append, ht, hz])]

/-! ### all rows: the lane-free scalar accumulation loop, then its closed form per output row -/

/-- `for i < m: out_row(i / A) ⊕= inp_row(i)` -/
def vloop (op : α → α → α) (inp : List α) (C A : Nat) (out : List α) (m : Nat) : List α :=
  (List.range m).foldl (fun o i => rowUpd op inp C o (i / A) i) out

theorem vloop_succ (op : α → α → α) (inp : List α) (C A : Nat) (out : List α) (m : Nat) :
    vloop op inp C A out (m + 1) = rowUpd op inp C (vloop op inp C A out m) (m / A) m := by
  unfold vloop; rw [List.range_succ, List.foldl_append]; rfl

theorem row_bounds (Ro A C R i : Nat) (hA : 0 < A) (hR : R = Ro * A) (hi : i < R) :
    i / A < Ro ∧ (i / A) * C + C ≤ Ro * C ∧ i * C + C ≤ R * C := by
  have hρ : i / A < Ro := by rw [Nat.div_lt_iff_lt_mul hA]; rw [hR] at hi; exact hi
  refine ⟨hρ, ?_, ?_⟩
  · have : (i / A + 1) * C ≤ Ro * C := Nat.mul_le_mul_right C hρ
    rw [Nat.succ_mul] at this; omega
  · have : (i + 1) * C ≤ R * C := Nat.mul_le_mul_right C hi
    rw [Nat.succ_mul] at this; omega

theorem vloop_length (op : α → α → α) (inp : List α) (C A Ro R : Nat) (out : List α)
    (hA : 0 < A) (hR : R = Ro * A) (hinp : inp.length = R * C) (hout : out.length = Ro * C) :
    ∀ m, m ≤ R → (vloop op inp C A out m).length = Ro * C := by
  intro m
  induction m with
  | zero => intro _; exact hout
  | succ m ih =>
    intro hm
    obtain ⟨_, h2, h3⟩ := row_bounds Ro A C R m hA hR (by omega)
    rw [vloop_succ, rowUpd_length _ _ _ _ _ _ (by rw [ih (by omega)]; exact h2) (by rw [hinp]; exact h3)]
    exact ih (by omega)

theorem rowOf_rowUpd_same (op : α → α → α) (inp : List α) (C : Nat) (o : List α) (ρ i : Nat)
    (ho : ρ * C + C ≤ o.length) (hi : i * C + C ≤ inp.length) :
    rowOf (rowUpd op inp C o ρ i) C ρ = List.zipWith op (rowOf o C ρ) (rowOf inp C i) := by
  have hb := rowUpd_block op inp C o ρ i 0 C ho hi (by omega)
  have h1 := rowOf_length o C ρ ho
  have h2 := rowOf_length inp C i hi
  have t1 : ((rowOf o C ρ).drop 0).take C = rowOf o C ρ := by
    rw [List.drop_zero]; exact List.take_of_length_le (by omega)
  have t2 : ((rowOf inp C i).drop 0).take C = rowOf inp C i := by
    rw [List.drop_zero]; exact List.take_of_length_le (by omega)
  rw [t1, t2, Nat.add_zero] at hb
  exact hb

theorem rowOf_rowUpd_other (op : α → α → α) (inp : List α) (C : Nat) (o : List α) (ρ ρ' i : Nat)
    (ho : ρ * C + C ≤ o.length) (hi : i * C + C ≤ inp.length) (ho' : ρ' * C + C ≤ o.length) (hne : ρ' ≠ ρ) :
    rowOf (rowUpd op inp C o ρ i) C ρ' = rowOf o C ρ' := by
  have hz : (List.zipWith op (rowOf o C ρ) (rowOf inp C i)).length = C := by
    rw [List.length_zipWith, rowOf_length o C ρ ho, rowOf_length inp C i hi, Nat.min_self]
  have ht : (o.take (ρ * C)).length = ρ * C := by rw [List.length_take]; omega
  rcases Nat.lt_or_gt_of_ne hne with hlt | hgt
  · -- row above the updated one: inside the untouched prefix
    have hb : ρ' * C + C ≤ ρ * C := by
      have : (ρ' + 1) * C ≤ ρ * C := Nat.mul_le_mul_right C hlt
      rw [Nat.succ_mul] at this; exact this
    unfold rowOf rowUpd
    rw [List.append_assoc, List.drop_append_of_le_length (by omega),
        List.take_append_of_le_length (by rw [List.length_drop]; omega)]
    rw [List.drop_take, List.take_take, Nat.min_eq_left (by omega)]
  · -- row below: inside the untouched suffix
    have hb : ρ * C + C ≤ ρ' * C := by
      have : (ρ + 1) * C ≤ ρ' * C := Nat.mul_le_mul_right C hgt
      rw [Nat.succ_mul] at this; exact this
    obtain ⟨x, hx⟩ : ∃ x, ρ' * C = (ρ * C + C) + x := ⟨ρ' * C - (ρ * C + C), by omega⟩
    unfold rowOf rowUpd
    rw [hx, drop_prefix _ _ (ρ * C + C) (by rw [List.length_append, ht, hz]), List.drop_drop]

/-- closed form per output row: after `m` input rows, output row `ρ` has absorbed input rows `ρA … ρA + cnt − 1` -/
theorem vloop_row (op : α → α → α) (inp : List α) (C A Ro R : Nat) (out : List α)
    (hA : 0 < A) (hR : R = Ro * A) (hinp : inp.length = R * C) (hout : out.length = Ro * C) :
    ∀ m, m ≤ R → ∀ ρ, ρ < Ro →
      rowOf (vloop op inp C A out m) C ρ
        = (List.range (min A (m - ρ * A))).foldl (fun acc a => List.zipWith op acc (rowOf inp C (ρ * A + a))) (rowOf out C ρ) := by
  intro m
  induction m with
  | zero => intro _ ρ _; simp [vloop]
  | succ m ih =>
    intro hm ρ hρ
    obtain ⟨h1, h2, h3⟩ := row_bounds Ro A C R m hA hR (by omega)
    have hlen := vloop_length op inp C A Ro R out hA hR hinp hout m (by omega)
    have hρC : ρ * C + C ≤ Ro * C := by
      have : (ρ + 1) * C ≤ Ro * C := Nat.mul_le_mul_right C hρ
      rw [Nat.succ_mul] at this; exact this
    have hdm : m = m / A * A + m % A := by
      have := Nat.div_add_mod m A; rw [Nat.mul_comm] at this; omega
    have hmod := Nat.mod_lt m hA
    rw [vloop_succ]
    by_cases he : ρ = m / A
    · subst he
      rw [rowOf_rowUpd_same _ _ _ _ _ _ (by rw [hlen]; exact h2) (by rw [hinp]; exact h3), ih (by omega) _ hρ]
      have c1 : min A (m - m / A * A) = m % A := by omega
      have c2 : min A (m + 1 - m / A * A) = m % A + 1 := by omega
      rw [c1, c2, List.range_succ, List.foldl_append]
      simp only [List.foldl_cons, List.foldl_nil]
      rw [← hdm]
    · rw [rowOf_rowUpd_other _ _ _ _ _ _ _ (by rw [hlen]; exact h2) (by rw [hinp]; exact h3) (by rw [hlen]; exact hρC) he,
          ih (by omega) _ hρ]
      have c : min A (m + 1 - ρ * A) = min A (m - ρ * A) := by
        rcases Nat.lt_or_gt_of_ne he with hlt | hgt
        · have : (ρ + 1) * A ≤ m / A * A := Nat.mul_le_mul_right A hlt
          rw [Nat.succ_mul] at this; omega
        · have : (m / A + 1) * A ≤ ρ * A := Nat.mul_le_mul_right A hgt
          rw [Nat.succ_mul] at this; omega
      rw [c]

end NmVerif.Simd
