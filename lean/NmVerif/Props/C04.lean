import NmVerif.Lemmas.Tile
/-
  C04 — selecting / replicating / joining / generating views equal their reference result.
  Only the property theorems live here; models are in `NmVerif/Index/*.lean`, specs + helper lemmas in
  `NmVerif/Lemmas/*.lean`.  Every theorem quantifies over all ranks / extents / arguments.
-/
namespace NmVerif.Props.C04
open NmVerif NmVerif.Index

/-! ### tile -/

/-- `view::tile` never answers Nothing, keeps the source shape, and its result shape is NumPy's
    (ranks aligned on the right, missing entries are 1, extents multiplied). -/
theorem tile_shape (s r : List Nat) :
    ∃ v, tileView s r = some v ∧ v.src = s ∧ v.dst = tileShapeSpec s r :=
  ⟨_, rfl, rfl, shapeTile_eq_spec s r⟩

/-- element `d` of the tile view is the source element at `d mod shape` (prepended axes dropped): NumPy's element. -/
theorem tile_elem (s r : List Nat) (v : IxView) (hv : tileView s r = some v) (d : Idx) (hd : InShape d v.dst) :
    v.map d = some (tileIdxSpec s d) := by
  simp only [tileView, Option.some.injEq] at hv
  subst hv
  have hl := hd.length_eq
  simp only [shapeTile_length] at hl
  simp [indexTile_eq_spec s d (by omega)]

/-- no access of a tile view leaves the source (C02 obligation of this view kind) -/
theorem tile_inBounds (s r : List Nat) (v : IxView) (hv : tileView s r = some v) (hs : Pos s) : v.InBounds := by
  simp only [tileView, Option.some.injEq] at hv
  subst hv
  intro d hd i hi
  simp only [Option.some.injEq] at hi
  subst hi
  exact indexTile_inShape s r hs d hd

example : tileShapeSpec [2, 3] [2, 1, 2] = [2, 2, 6] := by decide
example : (tileView [2, 3] [2, 1, 2]).map (·.map [1, 1, 5]) = some (some [1, 2]) := by decide
example : InShape [1, 1, 5] (tileShapeSpec [2, 3] [2, 1, 2]) ∧ Pos [2, 3] := by decide

end NmVerif.Props.C04
