import NmVerif.Static
/-
  NmVerif.StaticMore — C11, second group of transfer functions (core Lean only: linked into the driver).

  Same abstract domain as NmVerif.Static; one transfer function per view function, written from the metafunctions
  named beside it, and one reference run-time shape function (NumPy semantics) per view function.

    transferRepeat     index/repeat.hpp:140-196 (resolve_optype shape_repeat_t), view/repeat.hpp:21-26 (dst_size = product type)
    transferPad        index/pad.hpp:171-213 (shape_pad_t), view/pad.hpp:26-30 (dst_size = product type)
    transferAccumulate view/ufunc/accumulate.hpp:153-154 (shape<true>/size<true> of the operand) + decorator defaults
                       (decorator.hpp:1111-1225: fixed_size from size(), bounded_size = the operand's OWN bounded size)
    transferRoll       index/roll.hpp:181-228 (shape_roll_t), view/roll.hpp:19-20 (dst_size = src_size);
                       axis=None: flatten -> roll(axis 0_ct) -> reshape(src_shape)   (view/roll.hpp:87-92)
    transferFlip       view/flip.hpp:24-29 = apply_slice with index::flip_slices; index/slice.hpp:986-1003 (shape_slice_t),
                       :590-630 (shape_dynamic_slice_t); view/slice.hpp:23-26 (dst_size = product type)
    transferSlice      the same two resolvers for a tuple of slice entries
    transferMoveaxis   index/moveaxis.hpp:182-254 (order type) then view::transpose
    transferTake       index/take.hpp:155-207 (shape_take_t), view/take.hpp:87-113 (fixed_size from a constant shape only,
                       bounded_size = fixed_size)
    transferAtleastNd  index/atleast_nd.hpp:101-153 then view::reshape
    transferMulScalar  view/ufunc.hpp:96-104 (broadcast_arrays with a number), index/ufunc.hpp:101-191
    transferWhere      view/where.hpp (broadcast_arrays of three operands, decorator defaults: the sizes of the three
                       broadcast operands are ADDED, decorator.hpp:1125-1137, 1193-1205)
    transferMatmul     view/matmul.hpp:217-275 (shape_matmul_t), :507-543 (bounded_size = product of the operands' bounds)
-/
namespace NmVerif.Static
open NmVerif

/-! ### argument kinds -/

/-- integer argument (repeats, shift, nd …): compile-time constant `N_ct` / run-time int -/
inductive NumK where
  | ct (v : Nat)
  | rt
  deriving DecidableEq, Repr

def NumK.γ : NumK → Nat → Prop
  | .ct c, v => v = c
  | .rt, _ => True

def NumK.isCt : NumK → Bool
  | .ct _ => true
  | .rt => false

/-- admitted run-time value of an OPTIONAL single axis (None | compile-time | run-time int) -/
def AxisK.γ1 : AxisK → Option Nat → Prop
  | .none, v => v = Option.none
  | .cts x, v => v = some x
  | .rts, v => v ≠ Option.none
  | _, _ => False

def AxisK.isCt : AxisK → Bool
  | .cts _ => true
  | _ => false

/-- `const` for an operand of constant shape, `clipped` (same numbers read as maxima) otherwise -/
def ShapeK.like (sh : ShapeK) (t : List Nat) : ShapeK := if sh.isConst then .const t else .clipped t

/-! ### repeat -/

/-- multiply the extent at `a` by `r` -/
def mulAt : Nat → Nat → Shape → Shape
  | _, _, [] => []
  | 0, r, x :: xs => x * r :: xs
  | a + 1, r, x :: xs => x :: mulAt a r xs

/-- `np.repeat(a, r, axis).shape` for an integer `r` -/
def refRepeat (r : Nat) (axis : Option Nat) (s : Shape) : Option Shape :=
  match axis with
  | none => some [prod s * r]
  | some a => if a < s.length then some (mulAt a r s) else none

def repeatShapeK (sh : ShapeK) (rep : NumK) (ax : AxisK) : Option ShapeK :=
  match sh.cvalue, rep, ax.staticAxis? with
  | some v, .ct r, some axis => (refRepeat r axis v).map sh.like
  | _, _, _ =>
    match ax with
    | .none => some (.fixedDim 1)
    | .cts _ => some sh.lenK.toShapeK
    | .rts => some sh.lenK.toShapeK
    | _ => none

def transferRepeat (rep : NumK) (ax : AxisK) (i : SInfo) : Option SInfo :=
  (repeatShapeK i.seen.shape rep ax).map (fun d => indexingInfo d (productK d))

/-! ### pad (pad_width = before_0 … before_{n-1}, after_0 … after_{n-1}) -/

def padGo : Shape → List Nat → List Nat → Shape
  | x :: xs, b :: bs, a :: as => (x + b + a) :: padGo xs bs as
  | _, _, _ => []

/-- `np.pad(a, zip(before, after)).shape` -/
def refPad (w : List Nat) (s : Shape) : Option Shape :=
  if w.length = 2 * s.length then some (padGo s (w.take s.length) (w.drop s.length)) else none

/-- static values of an index-array argument (the maxima of a clipped one) -/
def ArrK.cvalue : ArrK → Option (List Nat)
  | .ct v => some v
  | .cl m => some m
  | _ => none

def ArrK.isCt : ArrK → Bool
  | .ct _ => true
  | _ => false

def padShapeK (sh : ShapeK) (w : ArrK) : Option ShapeK :=
  match sh.cvalue, w.cvalue with
  | some v, some pw => (refPad pw v).map (fun t => if sh.isConst && w.isCt then .const t else .clipped t)
  | _, _ => some sh.lenK.toShapeK

def transferPad (w : ArrK) (i : SInfo) : Option SInfo :=
  (padShapeK i.seen.shape w).map (fun d => indexingInfo d (productK d))

/-! ### accumulate (cumsum, cumprod): the shape of the operand -/

def refAccumulate (axis : Nat) (s : Shape) : Option Shape := if axis < s.length then some s else none

/-- `a` = what the view sees of its operand, `own` = the operand's own size knowledge -/
def accumulateInfo (a : SInfo) (own : SizeK) : SInfo :=
  ⟨a.shape, match a.size with
    | .known n => .known n
    | _ => match a.shape with
      | .const l => .atMost (prod l)
      | _ => match own with | .known n => .atMost n | .atMost n => .atMost n | .any => .any | .knownB _ b => .atMost b⟩

def transferAccumulate (i : SInfo) : Option SInfo := some (accumulateInfo i.seen i.size)

/-! ### roll -/

def refRoll (axis : Option Nat) (s : Shape) : Option Shape :=
  match axis with
  | none => some s
  | some a => if a < s.length then some s else none

/-- roll along a given axis: the shape type stays constant only when shape, shift and axis all are -/
def rollAxisInfo (allCt : Bool) (i : SInfo) : SInfo :=
  let a := i.seen
  let d : ShapeK := match a.shape, allCt with
    | .const l, true => .const l
    | sh, _ => sh.lenK.toShapeK
  indexingInfo d a.size

def transferRoll (shift : NumK) (ax : AxisK) (i : SInfo) : Option SInfo :=
  match ax with
  | .none => (transferFlatten i).map (fun f => reshapeByKind i.seen.shape (rollAxisInfo shift.isCt f))
  | .cts _ => some (rollAxisInfo shift.isCt i)
  | .rts => some (rollAxisInfo false i)
  | _ => none

/-! ### flip / slice -/

def refFlip (axis : Option Nat) (s : Shape) : Option Shape := refRoll axis s

/-- one entry of a basic index: Ellipsis | `a:b` (non-negative, step 1) | integer -/
inductive SlE where
  | ell
  | rng (a b : Nat)
  | idx (k : Nat)
  deriving DecidableEq, Repr

def SlE.isIdx : SlE → Bool
  | .idx _ => true
  | _ => false

def SlE.isEll : SlE → Bool
  | .ell => true
  | _ => false

def numIdx (es : List SlE) : Nat := es.countP SlE.isIdx

def sliceGo (nEll : Nat) : Shape → List SlE → Option Shape
  | sh, [] => some sh
  | sh, .ell :: es => if nEll ≤ sh.length then (sliceGo nEll (sh.drop nEll) es).map (sh.take nEll ++ ·) else none
  | [], _ :: _ => none
  | n :: t, .rng a b :: es => (sliceGo nEll t es).map ((min b n - min a n) :: ·)
  | n :: t, .idx k :: es => if k < n then sliceGo nEll t es else none

/-- NumPy basic indexing `a[es].shape`: at most one Ellipsis, which stands for the axes not named -/
def refSlice (es : List SlE) (s : Shape) : Option Shape :=
  let nEll := es.countP SlE.isEll
  let nAx := es.length - nEll
  if nEll > 1 ∨ nAx > s.length then none else sliceGo (s.length - nAx) s es

/-- shape_slice_t (fixed-length shape: `array<index_t, dim - #integers>`, otherwise the shape type itself) -/
def sliceShapeK (nInt : Nat) (sh : ShapeK) : Option ShapeK :=
  match sh.lenK with
  | .fixed n => if nInt ≤ n then some (.fixedDim (n - nInt)) else none
  | .bounded k => some (.boundedDim k)
  | .dyn => some .dyn

def transferSlice (es : List SlE) (i : SInfo) : Option SInfo :=
  (sliceShapeK (numIdx es) i.seen.shape).map (fun d => indexingInfo d (productK d))

def transferFlip (i : SInfo) : Option SInfo :=
  (sliceShapeK 0 i.seen.shape).map (fun d => indexingInfo d (productK d))

/-! ### moveaxis (one source, one destination) -/

/-- `order = [n for n in range(dim) if n != src]; order.insert(dst, src)` (numpy/core/numeric.py) -/
def moveOrder (dim src dst : Nat) : List Nat := ((List.range dim).erase src).insertIdx dst src

def refMoveaxis (src dst : Nat) (s : Shape) : Option Shape :=
  if src < s.length ∧ dst < s.length then refTranspose (some (moveOrder s.length src dst)) s else none

/-- the order handed to view::transpose is a tuple of constants only for (constant shape, constant source and destination);
    a clipped shape with constant arguments asks for `clipped_size_t<0>` and does not compile; every other combination
    yields a run-time index container, and transferTranspose does not distinguish those -/
def transferMoveaxis (ct : Option (Nat × Nat)) (i : SInfo) : Option SInfo :=
  match i.seen.shape, ct with
  | .const l, some (src, dst) => transferTranspose (some (.ct (moveOrder l.length src dst))) i
  | .clipped _, some _ => none
  | _, _ => transferTranspose (some .rtv) i

/-! ### take (indices: a 1-d index array; axis given) -/

def refTake (n : Nat) (axis : Nat) (s : Shape) : Option Shape :=
  if axis < s.length then some (s.set axis n) else none

def takeShapeK (sh : ShapeK) (idx : ArrK) (ax : AxisK) : Option ShapeK :=
  match ax with
  | .cts axis =>
    (match sh.cvalue, idx with
     | some v, .ct ix => (refTake ix.length axis v).map sh.like
     | _, _ => some sh.lenK.toShapeK)
  | .rts => some sh.lenK.toShapeK
  | _ => none

def takeInfo (d : ShapeK) : SInfo := ⟨d, match d with | .const l => .known (prod l) | _ => .any⟩

def transferTake (idx : ArrK) (ax : AxisK) (i : SInfo) : Option SInfo :=
  (takeShapeK i.seen.shape idx ax).map takeInfo

/-! ### atleast_nd (nd a compile-time constant) -/

def refAtleastNd (nd : Nat) (s : Shape) : Shape := List.replicate (nd - s.length) 1 ++ s

def atleastShapeK (nd : Nat) : ShapeK → ShapeK
  | .const l => .const (refAtleastNd nd l)
  | .clipped b => .clipped (refAtleastNd nd b)
  | .fixedDim k => .fixedDim (max k nd)
  | .boundedDim k => .boundedDim (max k nd)
  | .dyn => .dyn

def transferAtleastNd (nd : Nat) (i : SInfo) : Option SInfo :=
  some (reshapeByKind (atleastShapeK nd i.seen.shape) i)

/-! ### binary ufunc with a number (`view::multiply(a, 3)`) -/

def transferMulScalar (i : SInfo) : Option SInfo := some (ufuncInfo i.seen.shape .any)

/-! ### where(c, x, y): the three operands are broadcast to one shape; sizes: decorator defaults -/

def refBroadcast3 (a b c : Shape) : Option Shape := (refBroadcast a b).bind (fun t => refBroadcast t c)

/-- one step of the fold in `resolve_optype<broadcast_size_t>` (broadcast_shape.hpp:544-556): a size type survives only
    next to operands whose size type is the constant 1 -/
def bsizeStep : SizeK → SizeK → SizeK
  | .known 1, .known n => .known n
  | .known 1, .atMost n => .atMost n
  | .known n, .known 1 => .known n
  | .atMost n, .known 1 => .atMost n
  | _, _ => .any

/-- type of `index::broadcast_size(bcast_shape, sizes…)` -/
def bsizeK (B : ShapeK) (sizes : List SizeK) : SizeK :=
  match B with
  | .const l => .known (prod l)
  | .clipped b => .atMost (prod b)
  | _ => match sizes with
    | [] => .any
    | z :: zs => zs.foldl bsizeStep z

def broadcastShapeK3 (a b c : ShapeK) : Option ShapeK := (broadcastShapeK a b).bind (fun k => broadcastShapeK k c)

/-- after fix C11-where-size-of-broadcast-operand: fixed / bounded size of the view = those of ONE broadcast operand
    (view/where.hpp).  `o` = the (common) knowledge of one broadcast operand -/
def whereInfo (B : ShapeK) (o : SizeK) : SInfo :=
  ⟨B, match B with
    | .const l => .known (prod l)
    | _ => match o with | .known n => .known n | .atMost n => .atMost n | _ => .any⟩

def transferWhere (i j k : SInfo) : Option SInfo :=
  (broadcastShapeK3 i.seen.shape j.seen.shape k.seen.shape).map (fun B =>
    whereInfo B (indexingInfo B (bsizeK B [i.seen.size, j.seen.size, k.seen.size])).size)

/-- the class of operand types for which the summed fixed size is reported although the three operands are one and the
    same broadcast shape: shape type not constant, broadcast size type a constant -/
def whereTripled (i j k : SInfo) : Bool :=
  match broadcastShapeK3 i.seen.shape j.seen.shape k.seen.shape with
  | some B => !B.isConst && (match (indexingInfo B (bsizeK B [i.seen.size, j.seen.size, k.seen.size])).size with | .known _ => true | _ => false)
  | none => false

/-! ### number literals as operands; three-operand broadcasting -/

/-- a number literal as an operand: shape None (rank 0, every broadcast leaves the partner unchanged), size type ct<1> -/
def scalarInfo : SInfo := ⟨.const [], .known 1⟩

/-- one view of `view::broadcast_arrays(p, q, r)` = `broadcast_to(p, bcast_shape, bcast_size)` (view/broadcast_arrays.hpp:18-36) -/
def transferBroadcast3 (i j k : SInfo) : Option SInfo :=
  (broadcastShapeK3 i.seen.shape j.seen.shape k.seen.shape).map (fun B =>
    indexingInfo B (bsizeK B [i.seen.size, j.seen.size, k.seen.size]))

/-! ### matmul (operands of rank >= 2) -/

def splitLast2 (s : Shape) : Option (Shape × Nat × Nat) :=
  match s.reverse with
  | n :: m :: rest => some (rest.reverse, m, n)
  | _ => none

/-- `np.matmul(a, b).shape` for operands of rank >= 2: batch axes broadcast, (m,k) x (k,n) -> (m,n) -/
def refMatmul (a b : Shape) : Option Shape :=
  match splitLast2 a, splitLast2 b with
  | some (ba, m, k), some (bb, k', n) => if k = k' then (refBroadcast ba bb).map (· ++ [m, n]) else none
  | _, _ => none

/-- bounded size an operand contributes (bounded_size_v, else the product of a fixed shape) -/
def SInfo.bsz (i : SInfo) : Option Nat :=
  match i.boundedSize with
  | some n => some n
  | none => match i.shape with | .const l => some (prod l) | _ => none

def matmulShapeK (a b : ShapeK) : Option ShapeK :=
  match a.lenK, b.lenK with
  | .fixed la, .fixed lb => if la ≥ 2 ∧ lb ≥ 2 then some (.fixedDim (max la lb)) else none
  | la, lb => some (bcastLenK la lb)

/-- bounded_size = product of the operands' bounds; two operands of constant shape: fixed_size is the product of the constant
    result shape while bounded_size STAYS the product of the operands' sizes (view/matmul.hpp:507-543) -/
def matmulSize (i j : SInfo) : SizeK :=
  match i.bsz, j.bsz with | some x, some y => .atMost (x * y) | _, _ => .any

def transferMatmul (i j : SInfo) : Option SInfo :=
  match i.seen.shape, j.seen.shape with
  | .const va, .const vb =>
    (refMatmul va vb).map (fun t => ⟨.const t, match matmulSize i j with | .atMost b => .knownB (prod t) b | _ => .known (prod t)⟩)
  | a, b => (matmulShapeK a b).map (fun d => ⟨d, matmulSize i j⟩)

end NmVerif.Static
