// C16 harness (2/3): view::dot, view::inner, view::outer, view::vecdot
#include "nmtools/array/view/dot.hpp"
#include "nmtools/array/view/inner.hpp"
#include "nmtools/array/view/outer.hpp"
#include "nmtools/array/view/vecdot.hpp"
#include "c16_common.hpp"
using namespace c16;
namespace view = nmtools::view; namespace ix = nmtools::index;

std::string handle(const std::string& op, const Args& a) {
    if (op == "dot" || op == "inner" || op == "outer" || op == "vecdot") {
        std::string mode = has(a, "data") ? get(a, "data") : "mix";
        auto A = make(nats(a, "a"), mode, 0); auto B = make(nats(a, "b"), mode, 1);
        try {
            if (op == "dot") return show(view::dot(A, B));
            if (op == "inner") return show(view::inner(A, B));
            if (op == "outer") return show(view::outer(A, B));
            return show(view::vecdot(A, B));
        } catch (const std::out_of_range&) { return "crash:out_of_range"; }
    }
    if (op == "dot_helpers") {
        auto ls = nats(a, "a"), rs = nats(a, "b");
        return "ok tile=" + fmt(to_uvec(ix::dot_lhs_tile(ls, rs))) + " axes=" + fmt(to_uvec(ix::dot_rhs_transpose(rs)))
             + " lhs_reshape=" + fmt(to_uvec(ix::dot_lhs_reshape(ls, rs)));
    }
    if (op == "inner_helpers") {
        auto ls = nats(a, "a"), rs = nats(a, "b");
        return "ok lhs_reshape=" + fmt(to_uvec(ix::inner_lhs_reshape(ls, rs)));
    }
    return "unknown-op";
}
