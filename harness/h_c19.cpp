// C19 harness: vector / static_vector / array / small_vector / maybe / either histories (tuples: h_c19_tuple.cpp)
#include "h_c19_common.hpp"

// ---------------------------------------------------------------------------------------------
// utl::vector
// ---------------------------------------------------------------------------------------------
template <typename E> struct vec_peek : utl::vector<E> {
    using base = utl::vector<E>;
    using base::base;
    vec_peek() : base() {}
    vec_peek(const vec_peek& o) : base(static_cast<const base&>(o)) {}
    vec_peek& operator=(const vec_peek& o) { base::operator=(static_cast<const base&>(o)); return *this; }
    size_t cap() const { return (size_t)this->buffer_size_; }
    const E* raw() const { return this->buffer_; }
};
template <typename E> struct vec_kind {
    using T = E; using C = vec_peek<E>;
    static const int storage_fill = 0; static const bool unguarded = false;
    static void ctor(void* p) { new (p) C(); }
    static void ctorN(void* p, size_t n) { new (p) C(n); }
    static void ctorV(void* p, const std::vector<T>& v) {
        switch (v.size()) {
            case 2: new (p) C(v[0], v[1]); break;
            case 3: new (p) C(v[0], v[1], v[2]); break;
            case 4: new (p) C(v[0], v[1], v[2], v[3]); break;
            case 5: new (p) C(v[0], v[1], v[2], v[3], v[4]); break;
            case 6: new (p) C(v[0], v[1], v[2], v[3], v[4], v[5]); break;
            default: throw bad_args("ctorV arity");
        }
    }
    static void push(C& c, const T& v) { c.push_back(v); }
    static void pushAt(C& c, size_t i) { c.push_back(c[i]); }
    static void resize(C& c, size_t n) { c.resize(n); }
    static size_t size(const C& c) { return (size_t)c.size(); }
    static size_t limit(const C& c) { return c.cap(); }
    static const T& get(const C& c, size_t i) { return c.at(i); }
    static void set(C& c, size_t i, const T& v) { c[i] = v; }
    static std::string intern(const C& c) {
        std::string s = std::to_string(c.cap()) + ":";
        for (size_t i = c.size(), k = 0; i < c.cap(); i++, k++) { if (k) s += ","; s += cell<T>(c.raw()[i]); }
        return s;
    }
};

// ---------------------------------------------------------------------------------------------
// utl::static_vector<E,4>
// ---------------------------------------------------------------------------------------------
#ifdef C19_SAN
static const bool C19_UNGUARDED = true;    // let the sanitizers see accesses beyond the fixed buffer
#else
static const bool C19_UNGUARDED = false;
#endif
static const size_t SVEC_CAP = 4;
template <typename E> struct svec_peek : utl::static_vector<E, SVEC_CAP> {
    using base = utl::static_vector<E, SVEC_CAP>;
    using base::base;
    svec_peek() : base() {}
    svec_peek(const svec_peek& o) : base(static_cast<const base&>(o)) {}
    svec_peek& operator=(const svec_peek& o) { base::operator=(static_cast<const base&>(o)); return *this; }
    const E* raw() const { return this->buffer.data(); }
};
template <typename E> struct svec_kind {
    using T = E; using C = svec_peek<E>;
    static const int storage_fill = 0; static const bool unguarded = C19_UNGUARDED;
    static void ctor(void* p) { new (p) C(); }
    static void ctorN(void* p, size_t n) { new (p) C(n); }
    static void ctorV(void* p, const std::vector<T>& v) {
        switch (v.size()) {
            case 2: new (p) C(v[0], v[1]); break;
            case 3: new (p) C(v[0], v[1], v[2]); break;
            case 4: new (p) C(v[0], v[1], v[2], v[3]); break;
            default: throw bad_args("ctorV arity");
        }
    }
    static void push(C& c, const T& v) { c.push_back(v); }
    static void pushAt(C& c, size_t i) { c.push_back(c[i]); }
    static void resize(C& c, size_t n) { c.resize(n); }
    static size_t size(const C& c) { return (size_t)c.size(); }
    static size_t limit(const C&) { return SVEC_CAP; }
    static const T& get(const C& c, size_t i) { return c.at(i); }
    static void set(C& c, size_t i, const T& v) { c[i] = v; }
    static std::string intern(const C& c) {
        std::string s = std::to_string(SVEC_CAP) + ":";
        for (size_t i = c.size(), k = 0; i < SVEC_CAP; i++, k++) { if (k) s += ","; s += cell<T>(c.raw()[i]); }
        return s;
    }
};

// ---------------------------------------------------------------------------------------------
// utl::array<E,3>
// ---------------------------------------------------------------------------------------------
static const size_t ARR_N = 3;
template <typename E> struct arr_kind {
    using T = E; using C = utl::array<E, ARR_N>;
    static const int storage_fill = 0; static const bool unguarded = C19_UNGUARDED;
    static void ctor(void* p) { new (p) C{}; }
    static void ctorN(void* p, size_t) { new (p) C{}; }
    static void ctorV(void* p, const std::vector<T>& v) {
        switch (v.size()) {
            case 2: new (p) C{v[0], v[1]}; break;
            case 3: new (p) C{v[0], v[1], v[2]}; break;
            default: throw bad_args("ctorV arity");
        }
    }
    static void push(C&, const T&) {}
    static void pushAt(C&, size_t) {}
    static void resize(C&, size_t) {}
    static size_t size(const C& c) { return (size_t)c.size(); }
    static size_t limit(const C&) { return ARR_N; }
    static const T& get(const C& c, size_t i) { return c.at(i); }
    static void set(C& c, size_t i, const T& v) { c[i] = v; }
    static std::string intern(const C&) { return std::to_string(ARR_N) + ":"; }
};

// ---------------------------------------------------------------------------------------------
// nmtools::small_vector<E,4> over the STL-free parts: utl::either<utl::static_vector<E,4>, utl::vector<E>>
// ---------------------------------------------------------------------------------------------
static const size_t SMALL_DIM = 4;
template <typename E> struct small_peek : nmtools::small_vector<E, SMALL_DIM, utl::either, utl::static_vector, utl::vector> {
    using base = nmtools::small_vector<E, SMALL_DIM, utl::either, utl::static_vector, utl::vector>;
    using base::base;
    small_peek() : base() {}
    small_peek(const small_peek& o) : base(static_cast<const base&>(o)) {}
    small_peek& operator=(const small_peek& o) { base::operator=(static_cast<const base&>(o)); return *this; }
    const typename base::static_vector_type* st() const { return nmtools::get_if<typename base::static_vector_type>(&this->buffer_); }
    const typename base::vector_type* dy() const { return nmtools::get_if<typename base::vector_type>(&this->buffer_); }
};
template <typename E> struct small_kind {
    using T = E; using C = small_peek<E>;
    static const int storage_fill = 0; static const bool unguarded = false;
    static void ctor(void* p) { new (p) C(); }
    static void ctorN(void* p, size_t n) { new (p) C(n); }
    static void ctorV(void* p, const std::vector<T>& v) {
        switch (v.size()) {
            case 2: new (p) C(v[0], v[1]); break;
            case 3: new (p) C(v[0], v[1], v[2]); break;
            case 4: new (p) C(v[0], v[1], v[2], v[3]); break;
            case 5: new (p) C(v[0], v[1], v[2], v[3], v[4]); break;
            case 6: new (p) C(v[0], v[1], v[2], v[3], v[4], v[5]); break;
            default: throw bad_args("ctorV arity");
        }
    }
    static void push(C& c, const T& v) { c.push_back(v); }
    static void pushAt(C& c, size_t i) { c.push_back(c[i]); }
    static void resize(C& c, size_t n) { c.resize(n); }
    static size_t size(const C& c) { return (size_t)c.size(); }
    static size_t cap(const C& c) { return c.st() ? SMALL_DIM : reinterpret_cast<const vec_peek<E>*>(c.dy())->cap(); }
    static size_t limit(const C& c) { return cap(c); }
    static const T& get(const C& c, size_t i) { return c.at(i); }
    static void set(C& c, size_t i, const T& v) { c[i] = v; }
    static std::string intern(const C& c) {
        std::string s = (c.st() ? "S" : "D") + std::to_string(cap(c)) + ":";
        const T* d = c.data();
        for (size_t i = c.size(), k = 0; i < cap(c); i++, k++) { if (k) s += ","; s += cell<T>(d[i]); }
        return s;
    }
};

template <template <typename> class K> static std::string by_elem(const std::string& e, const std::vector<op_t>& ops) {
    if (e == "int") return run_history<K<int>>(ops);
    if (e == "double") return run_history<K<double>>(ops);
    throw bad_args("elem");
}

// ---------------------------------------------------------------------------------------------
// utl::maybe / utl::either histories
// ---------------------------------------------------------------------------------------------
template <typename E> struct right_of { using type = double; static double make(long long v) { return 0.5 * (double)v; } static long long show(double x) { return (long long)(x * 2.0); } };
template <> struct right_of<double> { using type = int; static int make(long long v) { return (int)v; } static long long show(int x) { return x; } };

template <typename E> struct maybe_kind {
    using T = E; using C = utl::maybe<E>;
    static void mk(void* p) { new (p) C(); }
    static void mkL(void* p, long long v) { T t = elem<T>::make(v); new (p) C(t); }
    static void mkR(void* p, long long) { new (p) C(utl::nothing); }
    static void setL(C& c, long long v) { T t = elem<T>::make(v); c = t; }
    static void setR(C& c, long long) { c = utl::nothing; }
    static bool isL(const C& c) { return c.has_value(); }
    static void writeL(C& c, long long v) { T t = elem<T>::make(v); *c = t; }
    static std::string show(const C& c) { return c.has_value() ? "J" + cell<T>(*c) : std::string("N"); }
};
template <typename E> struct either_kind {
    using T = E; using R = typename right_of<E>::type; using C = utl::either<E, R>;
    static void mk(void* p) { new (p) C(); }
    static void mkL(void* p, long long v) { T t = elem<T>::make(v); new (p) C(t); }
    static void mkR(void* p, long long v) { R r = right_of<E>::make(v); new (p) C(r); }
    static void setL(C& c, long long v) { T t = elem<T>::make(v); c = t; }
    static void setR(C& c, long long v) { R r = right_of<E>::make(v); c = r; }
    static bool isL(const C& c) { return c.index() == 0; }
    static void writeL(C& c, long long v) { T t = elem<T>::make(v); *c.template get_if<T>() = t; }
    static std::string show(const C& c) {
        if (c.index() == 0) return "L" + cell<T>(*c.template get_if<T>());
        R r = *c.template get_if<R>();
        return "R" + (is_poison(r) ? std::string("u") : std::to_string(right_of<E>::show(r)));
    }
};

template <typename K> static std::string run_ehistory(const std::vector<op_t>& ops) {
    using C = typename K::C;
    c19::allocator_reset(); trk::reset();
    alignas(16) static unsigned char store[NSLOTS][sizeof(C)];
    bool live[NSLOTS] = {false, false};
    auto obj = [&](int k) -> C& { return *std::launder(reinterpret_cast<C*>(store[k])); };
    auto fresh = [&](int k) -> void* { memset(store[k], 0, sizeof(C)); void* p = store[k]; asm volatile("" : "+r"(p) : : "memory"); return p; };
    auto drop = [&](int k) { obj(k).~C(); trk::sweep(store[k], sizeof(C)); live[k] = false; };
    std::string S, I;
    for (size_t t = 0; t < ops.size(); t++) {
        const op_t& o = ops[t];
        auto arg = [&](size_t i) -> long long { if (i >= o.a.size()) throw bad_args("op arity"); return o.a[i]; };
        int s = (int)arg(0);
        if (s < 0 || s >= NSLOTS) throw bad_args("slot");
        bool valid = true; std::string note;
        if (o.name == "mk")          { valid = !live[s]; if (valid) { K::mk(fresh(s)); live[s] = true; } }
        else if (o.name == "mkL")    { valid = !live[s]; if (valid) { K::mkL(fresh(s), arg(1)); live[s] = true; } }
        else if (o.name == "mkR")    { valid = !live[s]; if (valid) { K::mkR(fresh(s), arg(1)); live[s] = true; } }
        else if (o.name == "copy")   { int r = (int)arg(1); if (r < 0 || r >= NSLOTS) throw bad_args("slot"); valid = !live[s] && live[r]; if (valid) { new (fresh(s)) C(obj(r)); live[s] = true; } }
        else if (o.name == "assign") { int r = (int)arg(1); if (r < 0 || r >= NSLOTS) throw bad_args("slot"); valid = live[s] && live[r]; if (valid) { C& d = obj(s); const C& src = obj(r); d = src; } }
        else if (o.name == "setL")   { valid = live[s]; if (valid) K::setL(obj(s), arg(1)); }
        else if (o.name == "setR")   { valid = live[s]; if (valid) K::setR(obj(s), arg(1)); }
        else if (o.name == "writeL") { valid = live[s] && K::isL(obj(s)); if (valid) K::writeL(obj(s), arg(1)); }
        else if (o.name == "read")   { valid = live[s]; if (valid) note = " r=" + K::show(obj(s)); }
        else if (o.name == "destroy"){ valid = live[s]; if (valid) drop(s); }
        else throw bad_args("op");
        if (t) { S += "|"; I += "|"; }
        S += (live[0] ? K::show(obj(0)) : std::string("-")) + "/" + (live[1] ? K::show(obj(1)) : std::string("-")) + (valid ? note : std::string("!"));
        I += "live=" + std::to_string((long)trk::live.size() + trk::leaked) + ",b=" + std::to_string(trk::bad());
    }
    for (int k = 0; k < NSLOTS; k++) if (live[k]) drop(k);
    std::string fin = "leak=" + std::to_string(c19::g_allocs - c19::g_frees) + " live=" + std::to_string((long)trk::live.size() + trk::leaked)
                    + " bad=" + std::to_string(trk::bad() + c19::g_badfree);
    c19::allocator_reset(); trk::reset();
    return "ok " + S + " # " + I + " # " + fin;
}
template <template <typename> class K> static std::string by_eelem(const std::string& e, const std::vector<op_t>& ops) {
    if (e == "int") return run_ehistory<K<int>>(ops);
    if (e == "double") return run_ehistory<K<double>>(ops);
    if (e == "tracked") return run_ehistory<K<tracked>>(ops);
    throw bad_args("elem");
}

std::string handle(const std::string& op, const Args& a) {
    if (op == "ehist") {
        std::string kind = get(a, "kind"), e = has(a, "elem") ? get(a, "elem") : "int";
        auto ops = parse_ops(get(a, "ops"));
        if (kind == "maybe") return by_eelem<maybe_kind>(e, ops);
        if (kind == "either") return by_eelem<either_kind>(e, ops);
        return "unknown-op";
    }
    if (op != "hist") return "unknown-op";
    g_storage_fill = (has(a, "fill") && get(a, "fill") == "poison") ? (int)c19::POISON : 0;
    std::string kind = get(a, "kind"), e = has(a, "elem") ? get(a, "elem") : "int";
    auto ops = parse_ops(get(a, "ops"));
    if (kind == "vec") return by_elem<vec_kind>(e, ops);
    if (kind == "svec") return by_elem<svec_kind>(e, ops);
    if (kind == "arr") return by_elem<arr_kind>(e, ops);
    if (kind == "small") return by_elem<small_kind>(e, ops);
    return "unknown-op";
}
