import NmVerif.Index.Resize
import NmVerif.Index.Compress
import NmVerif.Lemmas.Take
/-
  Helper lemmas for the tier-B theorems: resize (nearest-neighbour sampling) and compress (take at the non-zero positions).
-/
namespace NmVerif.Index

/-- documented definition of nearest-neighbour resize: source coordinate `⌊d·src/dst⌋` per axis -/
def resizeIdxSpec (d : Idx) (src dst : Shape) : Idx :=
  List.zipWith (fun x (p : Nat × Nat) => x * p.1 / p.2) d (List.zip src dst)

theorem indexResize_eq_spec (d : Idx) (src dst : Shape) : indexResize d src dst = resizeIdxSpec d src dst := by
  induction d generalizing src dst with
  | nil => cases src <;> cases dst <;> simp [indexResize, resizeIdxSpec]
  | cons x d ih =>
    cases src with
    | nil => simp [indexResize, resizeIdxSpec]
    | cons s src =>
      cases dst with
      | nil => simp [indexResize, resizeIdxSpec]
      | cons t dst =>
        simp only [indexResize, resizeIdxSpec, List.zip_cons_cons, List.zipWith_cons_cons]
        rw [ih src dst, Nat.mul_comm]
        rfl

theorem indexResize_inShape (d : Idx) (src dst : Shape) (hl : src.length = dst.length) (hs : Pos src) (hd : InShape d dst) :
    InShape (indexResize d src dst) src := by
  induction d generalizing src dst with
  | nil =>
    cases dst with
    | nil => cases src with
      | nil => simp [indexResize, InShape]
      | cons _ _ => simp at hl
    | cons _ _ => simp [InShape] at hd
  | cons x d ih =>
    cases dst with
    | nil => simp [InShape] at hd
    | cons t dst =>
      cases src with
      | nil => simp at hl
      | cons s src =>
        simp only [InShape] at hd
        simp only [indexResize, InShape]
        refine ⟨?_, ih src dst (by simpa using hl) hs.tail hd.2⟩
        have ht : 0 < t := by omega
        apply (Nat.div_lt_iff_lt_mul ht).2
        exact Nat.mul_lt_mul_of_pos_left hd.1 hs.head

/-- every position reported by `nonzero` lies in the condition and holds a non-zero entry, in increasing order -/
theorem nonzeroIdxAux_spec (i : Nat) (cond : List Int) :
    ∀ j ∈ nonzeroIdxAux i cond, i ≤ j ∧ j < i + cond.length ∧ ∃ c, cond[j - i]? = some c ∧ c ≠ 0 := by
  induction cond generalizing i with
  | nil => simp [nonzeroIdxAux]
  | cons c cs ih =>
    intro j hj
    simp only [nonzeroIdxAux] at hj
    split at hj
    · rename_i hc
      simp only [List.mem_cons] at hj
      rcases hj with rfl | hj
      · exact ⟨Nat.le_refl _, by simp, c, by simp, hc⟩
      · obtain ⟨h1, h2, c', h3, h4⟩ := ih (i + 1) j hj
        refine ⟨by omega, by simp; omega, c', ?_, h4⟩
        have : j - i = (j - (i + 1)) + 1 := by omega
        rw [this]; simpa using h3
    · obtain ⟨h1, h2, c', h3, h4⟩ := ih (i + 1) j hj
      refine ⟨by omega, by simp; omega, c', ?_, h4⟩
      have : j - i = (j - (i + 1)) + 1 := by omega
      rw [this]; simpa using h3

theorem nonzeroIdx_spec (cond : List Int) :
    ∀ j ∈ nonzeroIdx cond, j < cond.length ∧ ∃ c, cond[j]? = some c ∧ c ≠ 0 := by
  intro j hj
  obtain ⟨_, h2, c, h3, h4⟩ := nonzeroIdxAux_spec 0 cond j hj
  exact ⟨by omega, c, by simpa using h3, h4⟩

end NmVerif.Index
