import NmVerif.Index.Roll
/-
  NmVerif.Index.Diagonal — MODEL of view/diagonal.hpp, diagflat.hpp, tril.hpp, triu.hpp, tri.hpp, eye.hpp, identity.hpp.

  Stable names:
    `Index.shapeDiagonal s offset a1 a2 : Option Shape`  index::shape_diagonal: extents of the other axes in order, then
        `max(0, min(s[a1] + min(offset,0), s[a2] - max(offset,0)))` (clamp repaired: "diagonal.offset-beyond-extent")
    `Index.indexDiagonal s d offset a1 a2 : Option Idx`  index::diagonal: other axes take `d` in order,
        `res[a1] = last + max(-offset,0)`, `res[a2] = last + max(offset,0)` (repaired: "diagonal.negative-offset")
    `Index.diagonalView s offset axis1 axis2 : Option IxView`   view::diagonal (axes normalised; `none` = failed unwrap, UB)
    `Index.diagflatView s k : Option IxView`   view::diagflat = indexer over `flatten(a)`; dst `(n+|k|, n+|k|)`;
        `(i0,i1)`: `i1 = i0 + k ⇒ flat source index `i0 + min(k,0)`, else fill (0)
    `Index.trilView s k`, `Index.triuView s k : Option IxView`  rank-1 source `(n) ↦ (n,n)` with `res[0] = d[-1]`; else same
        shape, `res = d`; fill iff `i1 > i0 + k` (tril) / `i0 > i1 - k` (triu), `(i0,i1)` = the last two coordinates
    `Index.GenView`  a generator (no source): shape + integer element function
    `Index.triGen n m k`, `Index.eyeGen n m k`, `Index.identityGen n`  element 1 iff `i1 ≤ i0 + k` / `i1 = i0 + k`
  Core Lean only.
-/
namespace NmVerif.Index

/-- entries whose position is neither `a1` nor `a2`, in order -/
def othersAux {α : Type} (a1 a2 : Nat) : Nat → List α → List α
  | _, [] => []
  | i, x :: xs => if i = a1 ∨ i = a2 then othersAux a1 a2 (i + 1) xs else x :: othersAux a1 a2 (i + 1) xs

def shapeDiagonal (s : Shape) (offset : Int) (a1 a2 : Nat) : Option Shape :=
  match s[a1]?, s[a2]? with
  | some n1, some n2 =>
      let src1 : Int := if offset < 0 then (n1 : Int) + offset else n1
      let src2 : Int := if offset > 0 then (n2 : Int) - offset else n2
      let m : Int := if src1 < src2 then src1 else src2
      some (othersAux a1 a2 0 s ++ [i2u (if m < 0 then 0 else m)])
  | _, _ => none

/-- result container (zero-initialised, `dim` entries) filled at the non-diagonal positions from `d` in order -/
def scatterOthers (a1 a2 : Nat) : Nat → Nat → Idx → Idx
  | _, 0, _ => []
  | i, n + 1, d =>
      if i = a1 ∨ i = a2 then 0 :: scatterOthers a1 a2 (i + 1) n d
      else match d with
        | x :: xs => x :: scatterOthers a1 a2 (i + 1) n xs
        | [] => 0 :: scatterOthers a1 a2 (i + 1) n []

def indexDiagonal (s : Shape) (d : Idx) (offset : Int) (a1 a2 : Nat) : Option Idx :=
  match d.getLast? with
  | some last => some (((scatterOthers a1 a2 0 s.length d).set a1 (last + (if offset < 0 then (-offset).toNat else 0))).set a2
      (last + (if offset > 0 then offset.toNat else 0)))
  | none => none

def diagonalView (s : Shape) (offset axis1 axis2 : Int) : Option IxView :=
  match normalizeAxis1 axis1 s.length, normalizeAxis1 axis2 s.length with
  | some a1, some a2 =>
      (shapeDiagonal s offset a1 a2).map (fun dst =>
        ⟨s, dst, fun d => some ((indexDiagonal s d offset a1 a2).getD [u64 (-1)])⟩)
  | _, _ => none

/-- the last two coordinates `(i0, i1)` of a destination index -/
def lastTwo (d : Idx) : Option (Nat × Nat) :=
  match d.reverse with
  | i1 :: i0 :: _ => some (i0, i1)
  | _ => none

def diagflatView (s : Shape) (k : Int) : Option IxView :=
  let n := prod s
  let m := (n : Int) + (if k ≥ 0 then k else -k)
  some ⟨s, [i2u m, i2u m], fun d =>
    match lastTwo d with
    | some (i0, i1) =>
        if (i1 : Int) = (i0 : Int) + k then
          some (reshapeIdx s [n] [i2u ((i0 : Int) + (if k > 0 then 0 else k))])
        else none
    | none => none⟩

def shapeTri (s : Shape) : Shape :=
  match s with
  | [n] => [n, n]
  | s => s

/-- common part of tril / triu: `fillIf i0 i1` decides the fill value -/
def triView (fillIf : Int → Int → Bool) (s : Shape) : Option IxView :=
  some ⟨s, shapeTri s, fun d =>
    match lastTwo d with
    | some (i0, i1) =>
        if fillIf i0 i1 then none
        else if s.length > 1 then some d else some [i1]
    | none => none⟩

def trilView (s : Shape) (k : Int) : Option IxView := triView (fun i0 i1 => decide (i1 > i0 + k)) s
def triuView (s : Shape) (k : Int) : Option IxView := triView (fun i0 i1 => decide (i0 > i1 - k)) s

structure GenView where
  dst : Shape
  elem : Idx → Int

def triGen (n : Nat) (m : Option Nat) (k : Int) : GenView :=
  ⟨[n, m.getD n], fun d => match lastTwo d with
    | some (i0, i1) => if (i1 : Int) ≤ (i0 : Int) + k then 1 else 0
    | none => 0⟩

def eyeGen (n : Nat) (m : Option Nat) (k : Int) : GenView :=
  ⟨[n, m.getD n], fun d => match lastTwo d with
    | some (i0, i1) => if (i1 : Int) = (i0 : Int) + k then 1 else 0
    | none => 0⟩

def identityGen (n : Nat) : GenView := eyeGen n none 0

end NmVerif.Index
