import NmVerif.NN.ComposeLemmas
import NmVerif.NN.LinearLemmas
/-
  NN/NormLemmas — the shared core of layer / instance / group norm (`normCore`): which elements enter the mean and the
  variance of output index `i` (the group of `i` under the keepdims reduction), and how both are broadcast back.
-/
namespace NmVerif.NN
open NmVerif.Reduce

variable {α : Type}

theorem normAt_defined (add sub div : α → α → α) (sqabs sqrt : α → α) (divn : α → Nat → α) (eps : α) (x : Idx → α)
    {G : List Idx} (i : Idx) (h : G ≠ []) : ∃ y, normAt add sub div sqabs sqrt divn eps x G i = some y := by
  obtain ⟨S, hS⟩ := foldFirst_map_some add x h
  obtain ⟨V, hV⟩ := foldFirst_map_some add (fun k => sqabs (sub (x k) (divn S G.length))) h
  exact ⟨_, by simp only [normAt, hS, Option.bind_some, hV]; rfl⟩

/-- `normCore`: exists, keeps the shape, and element `i` is `normAt` over the group of `i` -/
theorem normCore_spec (add sub div : α → α → α) (sqabs sqrt : α → α) (divn : α → Nat → α) (eps : α) (x : Arr α)
    (l : List Int) (hs : Pos x.shape) (hv : ValidAxes x.shape.length (some l)) :
    ∃ v, normCore add sub div sqabs sqrt divn eps x l = some v ∧ v.shape = x.shape ∧ ∀ i, InShape i x.shape →
      v.get i = normAt add sub div sqabs sqrt divn eps x.get (grp x.shape (axisSet x.shape.length (some l)) i) i := by
  obtain ⟨mu, hm1, hm2, hm3⟩ := NmVerif.Props.C08.mean_eq_sum_div_count add divn x (some l) true hs hv
  obtain ⟨vr, hv1, hv2, hv3⟩ := NmVerif.Props.C08.var_eq_mean_sq_dev add sub sqabs divn x (some l) 0 true hs hv
  have hpk := pos_specShape_keep x.shape (axisSet x.shape.length (some l)) hs
  have hbk := bshape_keep x.shape (axisSet x.shape.length (some l)) hs
  -- shift = subtract(x, mean)
  obtain ⟨sh, hs1, hs2, hs3⟩ := bin_back sub (den_lift x) hs (by rw [hm2]; exact hpk) (by rw [hm2]; exact hbk)
  -- divide(shift, sqrt(var + eps))
  obtain ⟨v, hd1, hd2, hd3⟩ := bin_spec div sh (un (fun t => sqrt (add t eps)) vr) x.shape (by rw [hs2]; exact hs)
    (by show Pos vr.shape; rw [hv2]; exact hpk) (by show broadcastShape2 sh.shape vr.shape = _; rw [hs2, hv2]; exact hbk)
  refine ⟨v, by simp only [normCore, hm1, hs1, hv1, Option.bind_some]; exact hd1, hd2, fun i hi => ?_⟩
  have hpi := proj_true_inShape x.shape (axisSet x.shape.length (some l)) i hi
  rw [hd3 i hi, hs2, sbi_self _ i hi, hs3 i hi]
  show optOp div (optOp sub (some (x.get i)) (mu.get (specBroadcastIdx mu.shape i)))
      ((vr.get (specBroadcastIdx vr.shape i)).map fun t => sqrt (add t eps)) = _
  rw [hm2, hv2, sbi_keep _ _ i hi, hm3 _ (by rw [hm2]; exact hpi), hv3 _ (by rw [hv2]; exact hpi)]
  simp only [specReduceElem, specVarElem, normAt, grp, Nat.sub_zero]
  cases foldFirst add none
      ((addressed x.shape (axisSet x.shape.length (some l)) true (proj (axisSet x.shape.length (some l)) true i)).map x.get) with
  | none => rfl
  | some S =>
    simp only [Option.map_some, Option.bind_some]
    cases foldFirst add none
        ((addressed x.shape (axisSet x.shape.length (some l)) true (proj (axisSet x.shape.length (some l)) true i)).map
          fun k => sqabs (sub (x.get k) (divn S
            (addressed x.shape (axisSet x.shape.length (some l)) true (proj (axisSet x.shape.length (some l)) true i)).length))) with
    | none => rfl
    | some V => rfl

/-! ### the trailing axes `−k .. −1` -/

theorem normAxis_neg {n : Nat} {a : Int} (hv : ValidAxis n a) (ha : a < 0) : normAxis n a = ((n : Int) + a).toNat := by
  have h := normalizeAxis_of_valid hv
  unfold normalizeAxis at h
  have hv' : -(n : Int) ≤ a ∧ a < (n : Int) := hv
  rw [if_pos hv', if_pos ha, Option.some.injEq] at h
  exact h.symm

theorem validAxis_trailing (m k i : Nat) (hi : i < k) : ValidAxis (m + k) (-(k : Int) + (i : Int)) := by
  unfold ValidAxis; omega

theorem axisSet_trailing (m k : Nat) :
    axisSet (m + k) (some (trailingAxes k)) = (List.range k).map (m + ·) := by
  simp only [axisSet, trailingAxes, List.map_map]
  apply List.map_congr_left
  intro i hi
  have hik : i < k := List.mem_range.1 hi
  simp only [Function.comp]
  rw [normAxis_neg (validAxis_trailing m k i hik) (by omega)]
  omega

theorem validAxes_trailing (m k : Nat) : ValidAxes (m + k) (some (trailingAxes k)) := by
  refine ⟨?_, ?_⟩
  · intro a ha
    simp only [trailingAxes, List.mem_map, List.mem_range] at ha
    obtain ⟨i, hi, rfl⟩ := ha
    exact validAxis_trailing m k i hi
  · have := axisSet_trailing m k
    simp only [axisSet] at this
    rw [this]
    rw [← List.range'_eq_map_range]
    exact List.nodup_range' 

/-- the group of `i` when the axis set is the trailing block `m .. m+k−1` of a rank-`m+k` shape -/
theorem grp_block (s : Shape) (m k : Nat) (hl : s.length = m + k) (R : List Nat) (hR : R = (List.range k).map (m + ·))
    (i : Idx) (hi : InShape i s) : grp s R i = blockOf s m i := by
  rw [hR, grp_eq_groupL s _ i hi, ← groupL_trailing m s 0 i hi (by omega)]
  apply groupL_congr
  intro j _ hj
  simp only [List.mem_map, List.mem_range, Nat.zero_add]
  apply decide_eq_decide.2
  constructor
  · rintro ⟨a, _, rfl⟩; omega
  · intro h; exact ⟨j - m, by omega, by omega⟩

/-- the group of `i` when the last `k` axes of a rank-`m+k` shape are reduced: its block over the trailing axes -/
theorem grp_trailing (s : Shape) (m k : Nat) (hl : s.length = m + k) (i : Idx) (hi : InShape i s) :
    grp s (axisSet s.length (some (trailingAxes k))) i = blockOf s m i :=
  grp_block s m k hl _ (by rw [hl, axisSet_trailing]) i hi

theorem blockOf_append (lead ns p q : List Nat) (hp : p.length = lead.length) :
    blockOf (lead ++ ns) lead.length (p ++ q) = (allIdx ns).map (p ++ ·) := by
  simp [blockOf, ← hp]

end NmVerif.NN
