import NmVerif.NN.ComposeLemmas
import NmVerif.NN.PoolLemmas
/-
  NN/LinearLemmas — `view::linear`: the term structure of `tensordot(input, weight, ((-1),(-1)))` from the C16 lemmas,
  and broadcasting of an operand whose shape is a trailing part of the other shape (bias, layer_norm weight).
-/
namespace NmVerif.NN
open NmVerif.Reduce

variable {α : Type}

/-! ### an operand whose shape is the trailing part `s.drop m` of the other operand's shape -/

theorem bcRev_prefix : ∀ (a : List Nat) (k : Nat), bcRev a (a.take k) = some a := by
  intro a
  induction a with
  | nil => intro k; simp [bcRev]
  | cons x xs ih =>
    intro k
    cases k with
    | zero => simp [bcRev]
    | succ k =>
      have hb : bc1 x x = some x := by simp [bc1]
      simp [bcRev, hb, ih k]

theorem bshape_trailing (s : Shape) (m : Nat) : broadcastShape2 s (s.drop m) = some s := by
  unfold broadcastShape2
  rw [List.reverse_drop, bcRev_prefix]
  simp

theorem inShape_drop : ∀ (s : Shape) (i : Idx) (m : Nat), InShape i s → InShape (i.drop m) (s.drop m) := by
  intro s
  induction s with
  | nil => intro i m hi; cases i with
    | nil => simp [InShape]
    | cons _ _ => simp [InShape] at hi
  | cons a t ih =>
    intro i m hi
    cases i with
    | nil => simp [InShape] at hi
    | cons i0 it =>
      cases m with
      | zero => simpa using hi
      | succ m => simp only [InShape] at hi; simpa using ih it m hi.2

theorem sbi_trailing (s : Shape) (m : Nat) (i : Idx) (hi : InShape i s) :
    specBroadcastIdx (s.drop m) i = i.drop m := by
  unfold specBroadcastIdx
  have hl := hi.length_eq
  have : i.length - (s.drop m).length = min m i.length := by simp [List.length_drop]; omega
  rw [this]
  have hd : i.drop (min m i.length) = i.drop m := by
    rcases Nat.le_total m i.length with h | h
    · rw [Nat.min_eq_left h]
    · rw [Nat.min_eq_right h, List.drop_length, List.drop_eq_nil_of_le h]
  rw [hd]
  exact zipWith_sbi_self _ _ (inShape_drop s i m hi)

theorem pos_drop {s : Shape} (hs : Pos s) (m : Nat) : Pos (s.drop m) :=
  fun x hx => hs x (List.mem_of_mem_drop hx)

theorem optOp_some_right (f : α → α → α) (o : Option α) (y : α) : optOp f o (some y) = o.map (f · y) := by
  cases o <;> rfl

/-- `view::linear` without bias, relative to the tensordot term list `r` -/
theorem linear_rel_nobias (add mul : α → α → α) (x w : Arr α) (r : Arr (List Linalg.Term))
    (hr : Linalg.tensordotAxes x.shape w.shape [-1] [-1] = some r) :
    ∃ v, linear add mul x w none = some v ∧ v.shape = r.shape ∧ ∀ d,
      v.get d = foldFirst add none ((r.get d).map fun tm => mul (x.get tm.1) (w.get tm.2)) :=
  ⟨⟨r.shape, fun d => foldFirst add none ((r.get d).map fun tm => mul (x.get tm.1) (w.get tm.2))⟩,
    by simp only [linear, tensordotVal, hr, Option.map_some, Option.bind_some], rfl, fun _ => rfl⟩

/-- `view::linear` with a bias `b : [O]`, relative to the tensordot term list `r` of shape `lead ++ [O]`: each element
    folds (from the first term) the products named by the term list, and the bias of the output feature is added last -/
theorem linear_rel_bias (add mul : α → α → α) (x w b : Arr α) (r : Arr (List Linalg.Term))
    (lead : Shape) (O : Nat) (hr : Linalg.tensordotAxes x.shape w.shape [-1] [-1] = some r)
    (hrs : r.shape = lead ++ [O]) (hp : Pos (lead ++ [O])) (hbs : b.shape = [O]) :
    ∃ v, linear add mul x w (some b) = some v ∧ v.shape = lead ++ [O] ∧ ∀ p o, InShape p lead → o < O →
      v.get (p ++ [o]) =
        (foldFirst add none ((r.get (p ++ [o])).map fun tm => mul (x.get tm.1) (w.get tm.2))).map
          (fun S => add S (b.get [o])) := by
  have hdrop : (lead ++ [O]).drop lead.length = [O] := List.drop_left
  have hbr : broadcastShape2 (lead ++ [O]) [O] = some (lead ++ [O]) := by
    have := bshape_trailing (lead ++ [O]) lead.length
    rwa [hdrop] at this
  let y : OArr α := ⟨r.shape, fun d => foldFirst add none ((r.get d).map fun tm => mul (x.get tm.1) (w.get tm.2))⟩
  obtain ⟨u, h1, h2, h3⟩ := bin_spec add y (lift b) (lead ++ [O]) (by show Pos r.shape; rw [hrs]; exact hp)
    (by show Pos b.shape; rw [hbs]; intro z hz; simp at hz; subst hz; exact hp z (by simp))
    (by show broadcastShape2 r.shape b.shape = _; rw [hrs, hbs]; exact hbr)
  refine ⟨u, by simp only [linear, tensordotVal, hr, Option.map_some, Option.bind_some]; exact h1, h2, fun p o hpi ho => ?_⟩
  have hin : InShape (p ++ [o]) (lead ++ [O]) := inShape_append hpi (by simp [InShape]; exact ho)
  rw [h3 _ hin]
  show optOp add (y.get (specBroadcastIdx r.shape (p ++ [o]))) (some (b.get (specBroadcastIdx b.shape (p ++ [o])))) = _
  have hsb : specBroadcastIdx [O] (p ++ [o]) = [o] := by
    have := sbi_trailing (lead ++ [O]) lead.length (p ++ [o]) hin
    rw [hdrop] at this
    rw [this, ← hpi.length_eq, List.drop_left]
  rw [hrs, sbi_self _ _ hin, hbs, hsb, optOp_some_right]

end NmVerif.NN
