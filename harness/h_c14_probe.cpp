// C14 harness (a): the functor / composition / combinator machinery itself, observed with PURE PROBE functors on
// numbers: probe p<K> has arity K and returns the id of the symbolic term p<K>(operands..., attributes...), so the
// answer shows which functor received which operands in which order — what lean/NmVerif/Functional.lean models.
//   c14_probe comp=<M(l,r) tree of p1 p2 p3 swap dup dig1 dig2 bury1 bury2> steps=o:1,2;a:5;o:3
//     o:<ints> = one call `f(operands...)`, a:<int> = `f[attribute]`
#include "nmtools/array/functional/functor.hpp"
#include "nmtools/array/functional/combinator.hpp"
#include "proto.hpp"
#include <map>
namespace nm = nmtools; namespace fn = nmtools::functional; namespace cb = nmtools::combinator; namespace meta = nm::meta;
using namespace proto;

// pure probe functors on numbers: value = id of the symbolic term  p<K>(args..., attrs...)
static std::map<std::string,int> MEMO; static std::vector<std::string> TERMS;   // id-100 -> term
static std::string term_of(int v) { return v >= 100 ? TERMS[v-100] : std::to_string(v); }
template <int K> struct probe_t {
    template <typename...args_t> int operator()(const args_t&...args) const {
        std::string t = "p" + std::to_string(K) + "("; bool first = true;
        ((t += (first ? "" : ",") + term_of((int)args), first = false), ...);
        t += ")";
        auto it = MEMO.find(t); if (it != MEMO.end()) return it->second;
        int id = 100 + (int)TERMS.size(); TERMS.push_back(t); MEMO[t] = id; return id;
    }
};
constexpr inline auto p1 = fn::functor_t{fn::unary_fmap_t<probe_t<1>>{}};
constexpr inline auto p2 = fn::functor_t{fn::binary_fmap_t<probe_t<2>>{}};
constexpr inline auto p3 = fn::functor_t{fn::ternary_fmap_t<probe_t<3>>{}};
constexpr inline auto p4 = fn::functor_t{fn::quaternary_fmap_t<probe_t<4>>{}};
constexpr inline auto p5 = fn::functor_t{fn::quinary_fmap_t<probe_t<5>>{}};
// compositions built once and multiplied as blocks
constexpr inline auto blk21 = p2*p1;
constexpr inline auto blk2s = p2*cb::swap;
constexpr inline auto blkd1 = cb::dup*p1;

template <typename T> struct is_fn : std::false_type {};
template <typename F, typename O, typename A> struct is_fn<fn::functor_t<F,O,A>> : std::true_type {};
template <typename T> struct is_comp : std::false_type {};
template <typename F, typename O> struct is_comp<fn::functor_composition_t<F,O>> : std::true_type {};

template <typename T> std::string show(const T& r) {
    if constexpr (is_fn<T>::value) return "curried arity=" + std::to_string((int)T::arity);
    else if constexpr (is_comp<T>::value) return "curried arity=" + std::to_string((int)T::arity);
    else if constexpr (meta::is_tuple_v<T>) { std::string s; meta::template_for<meta::len_v<T>>([&](auto i){ s += (s.empty() ? "" : ";") + show(nm::get<decltype(i)::value>(r)); }); return "values " + s; }
    else if constexpr (meta::is_num_v<T>) return term_of((int)r);
    else return "?";
}
struct step_t { bool attr; std::vector<int> v; };
template <int MAXOPS, int MAXATTR, typename F> std::string go(const F& f, const std::vector<step_t>& steps, size_t pos) {
    if (pos == steps.size()) { auto s = show(f); return s.rfind("values ",0)==0 || s.rfind("curried",0)==0 ? s : "values " + s; }
    if constexpr (!(is_fn<F>::value || is_comp<F>::value)) return "not-callable";
    else {
        const auto& st = steps[pos];
        if (st.attr) {
            if constexpr (is_fn<F>::value && MAXATTR > 0) return go<MAXOPS,MAXATTR-1>(f[st.v[0]], steps, pos+1); else return "no-attr";
        }
        constexpr int AR = (int)F::arity;
        const auto& o = st.v;
        // C++ allows more operands than the arity (rest passed on) — bound the fan-out
        if constexpr (MAXOPS >= 1) if (o.size()==1) return go<MAXOPS-1,MAXATTR>(f(o[0]), steps, pos+1);
        if constexpr (MAXOPS >= 2) if (o.size()==2) return go<MAXOPS-2,MAXATTR>(f(o[0],o[1]), steps, pos+1);
        if constexpr (MAXOPS >= 3) if (o.size()==3) return go<MAXOPS-3,MAXATTR>(f(o[0],o[1],o[2]), steps, pos+1);
        if constexpr (MAXOPS >= 4) if (o.size()==4) return go<MAXOPS-4,MAXATTR>(f(o[0],o[1],o[2],o[3]), steps, pos+1);
        if constexpr (MAXOPS >= 5) if (o.size()==5) return go<MAXOPS-5,MAXATTR>(f(o[0],o[1],o[2],o[3],o[4]), steps, pos+1);
        return "too-many";
    }
}
#define ENTRY(name, expr) if (comp == name) { MEMO.clear(); TERMS.clear(); return "ok " + go<5,0>(expr, steps, 0); }
#define ENTRYA(name, expr) if (comp == name) { MEMO.clear(); TERMS.clear(); return "ok " + go<5,2>(expr, steps, 0); }
#ifndef C14_PROBE_GROUP
#error "C14_PROBE_GROUP not set"
#endif
std::string handle(const std::string& op, const Args& a) {
    if (op != "c14_probe") return "unknown-op";
    auto comp = get(a,"comp");
    std::vector<step_t> steps;
    for (auto& s : split(get(a,"steps"),';')) { step_t st; st.attr = s[0]=='a'; st.v = std::vector<int>(); for (auto x: parse_ints(s.substr(2))) st.v.push_back((int)x); steps.push_back(st); }
#if C14_PROBE_GROUP == 1
    // single functors / combinators
    ENTRYA("p1", p1) ENTRYA("p2", p2) ENTRYA("p3", p3)
    ENTRY("swap", cb::swap) ENTRY("dup", cb::dup) ENTRY("dig1", cb::dig1) ENTRY("dig2", cb::dig2) ENTRY("bury1", cb::bury1) ENTRY("bury2", cb::bury2)
    // 2 functors, binary functor in either position, combinators
    ENTRY("M(p1,p1)", p1*p1) ENTRY("M(p1,p2)", p1*p2) ENTRY("M(p2,p1)", p2*p1) ENTRY("M(p2,p2)", p2*p2) ENTRY("M(p1,p3)", p1*p3) ENTRY("M(p3,p1)", p3*p1)
    ENTRY("M(p3,p2)", p3*p2) ENTRY("M(p2,p3)", p2*p3)
    ENTRY("M(p2,swap)", p2*cb::swap) ENTRY("M(p2,dup)", p2*cb::dup) ENTRY("M(p3,dig2)", p3*cb::dig2) ENTRY("M(p3,bury2)", p3*cb::bury2)
    ENTRY("M(dup,p1)", cb::dup*p1) ENTRY("M(swap,swap)", cb::swap*cb::swap) ENTRY("M(bury2,dig2)", cb::bury2*cb::dig2) ENTRY("M(p2,dig1)", p2*cb::dig1) ENTRY("M(p2,bury1)", p2*cb::bury1)
    // 3 functors, both parenthesisations
    ENTRY("M(M(p2,p1),dig2)", (p2*p1)*cb::dig2) ENTRY("M(p2,M(p1,dig2))", p2*(p1*cb::dig2))
    ENTRY("M(M(p1,p2),p2)", (p1*p2)*p2) ENTRY("M(p1,M(p2,p2))", p1*(p2*p2))
    ENTRY("M(M(p2,swap),p2)", (p2*cb::swap)*p2) ENTRY("M(p2,M(swap,p2))", p2*(cb::swap*p2))
    ENTRY("M(M(p2,p2),dup)", (p2*p2)*cb::dup) ENTRY("M(p2,M(p2,dup))", p2*(p2*cb::dup))
    ENTRY("M(M(p3,bury2),p1)", (p3*cb::bury2)*p1) ENTRY("M(p3,M(bury2,p1))", p3*(cb::bury2*p1))
    ENTRY("M(M(p2,p3),p2)", (p2*p3)*p2) ENTRY("M(p2,M(p3,p2))", p2*(p3*p2))
#elif C14_PROBE_GROUP == 2
    // 4 functors, every parenthesisation of one chain, and more chains
    ENTRY("M(M(p2,p2),M(p1,bury2))", (p2*p2)*(p1*cb::bury2)) ENTRY("M(p2,M(p2,M(p1,bury2)))", p2*(p2*(p1*cb::bury2)))
    ENTRY("M(M(M(p2,p2),p1),bury2)", ((p2*p2)*p1)*cb::bury2) ENTRY("M(M(p2,M(p2,p1)),bury2)", (p2*(p2*p1))*cb::bury2) ENTRY("M(p2,M(M(p2,p1),bury2))", p2*((p2*p1)*cb::bury2))
    ENTRY("M(M(p1,p2),M(swap,dup))", (p1*p2)*(cb::swap*cb::dup)) ENTRY("M(p1,M(p2,M(swap,dup)))", p1*(p2*(cb::swap*cb::dup)))
    ENTRY("M(M(p2,p1),M(p2,dig2))", (p2*p1)*(p2*cb::dig2)) ENTRY("M(M(M(p2,p1),p2),dig2)", ((p2*p1)*p2)*cb::dig2)
    ENTRY("M(M(p3,p1),M(p2,p2))", (p3*p1)*(p2*p2)) ENTRY("M(p3,M(p1,M(p2,p2)))", p3*(p1*(p2*p2)))
#elif C14_PROBE_GROUP == 3
    // arity 4 and 5 (every curry split), binary / unary functors fed by them and feeding them
    ENTRYA("p4", p4) ENTRYA("p5", p5)
    ENTRY("M(p4,p2)", p4*p2) ENTRY("M(p2,p4)", p2*p4) ENTRY("M(p1,p5)", p1*p5) ENTRY("M(p5,dup)", p5*cb::dup) ENTRY("M(p4,dig2)", p4*cb::dig2)
    // combinators left-most, in the middle, right-most
    ENTRY("M(swap,p2)", cb::swap*p2) ENTRY("M(dig2,p1)", cb::dig2*p1) ENTRY("M(bury2,p2)", cb::bury2*p2) ENTRY("M(dup,dup)", cb::dup*cb::dup)
    ENTRY("M(p2,M(dup,p1))", p2*(cb::dup*p1)) ENTRY("M(M(p2,dup),p1)", (p2*cb::dup)*p1)
    ENTRY("M(p3,M(dig2,p3))", p3*(cb::dig2*p3)) ENTRY("M(M(p3,dig2),p3)", (p3*cb::dig2)*p3)
    ENTRY("M(M(swap,p2),swap)", (cb::swap*p2)*cb::swap) ENTRY("M(swap,M(p2,swap))", cb::swap*(p2*cb::swap))
#elif C14_PROBE_GROUP == 4
    // prebuilt blocks: a composition object built once, multiplied with itself / other blocks / functors on either side
    ENTRY("M(M(p2,p1),M(p2,p1))", blk21*blk21) ENTRY("M(M(p2,swap),M(p2,p1))", blk2s*blk21) ENTRY("M(M(p2,p1),M(p2,swap))", blk21*blk2s)
    ENTRY("M(M(dup,p1),M(p2,p1))", blkd1*blk21) ENTRY("M(M(p2,p1),M(dup,p1))", blk21*blkd1)
    ENTRY("M(p1,M(p2,p1))", p1*blk21) ENTRY("M(M(p2,p1),p3)", blk21*p3)
    ENTRY("M(M(M(p2,p1),M(p2,p1)),M(p2,swap))", (blk21*blk21)*blk2s) ENTRY("M(M(p2,p1),M(M(p2,p1),M(p2,swap)))", blk21*(blk21*blk2s))
#endif
    return "unknown-comp";
}
