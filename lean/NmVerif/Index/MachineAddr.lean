import NmVerif.Basic
/-
  NmVerif.Index.MachineAddr — machine-width model of the three addressing functions (C01).

  `NmVerif.Basic` models `compute_strides / compute_offset / compute_indices` over unbounded `Nat`.  Here the
  ELEMENT TYPE of the index containers is a parameter (`ITy`: width and signedness; `int`, `uint32_t`, `long`,
  `size_t` are the instances the harness `h_c01w.cpp` runs), and every arithmetic step is the one the C++ performs:

    include/nmtools/array/index/compute_strides.hpp   stride():  `auto p = result_t{}; p = 1; p *= at(shape,j)`
        — `result_t` is the element type of the SHAPE container, so the suffix product is formed IN THAT TYPE
          (wraps modulo 2^w when unsigned, is undefined behaviour when signed and the product does not fit);
    include/nmtools/array/index/compute_offset.hpp    `offset += static_cast<size_type>(at(strides,i)) * static_cast<size_type>(at(indices,i))`
        — `size_type = nm_size_t` (64 bit): each OPERAND is widened first, the product and the sum are formed
          modulo 2^64;
    include/nmtools/array/index/compute_indices.hpp   `at(indices,i) = (offset / at(strides,i)) % at(shape,i)`
        — with a `size_t` offset both operands are converted to `size_t`, the quotient / remainder are formed in
          64 bit and the result is stored (narrowed) into the element type of the shape container; a zero stride or
          extent is a division by zero (UB).

  Values stored in a container are modelled as the `Nat` they denote; this is adequate exactly for values that FIT the
  element type (`ITy.Fits`, what the driver checks before it answers: other requests cannot be put into the container).
  `none` = undefined behaviour (signed overflow, division by zero) or a value outside this non-negative model.
  Only widths of at least `int` occur (no integral promotion of narrower types is modelled).

  Core Lean only (linked into the driver).
-/
namespace NmVerif

/-- element type of an index container -/
structure ITy where
  bits : Nat
  signed : Bool
deriving DecidableEq, Repr

namespace ITy
def i32 : ITy := ⟨32, true⟩
def u32 : ITy := ⟨32, false⟩
def i64 : ITy := ⟨64, true⟩
def u64 : ITy := ⟨64, false⟩

/-- number of non-negative values of the type: `2^(w-1)` signed, `2^w` unsigned -/
def lim (t : ITy) : Nat := if t.signed then 2 ^ (t.bits - 1) else 2 ^ t.bits

/-- the non-negative value `n` is representable in `t` -/
def Fits (t : ITy) (n : Nat) : Prop := n < t.lim
instance (t : ITy) (n : Nat) : Decidable (t.Fits n) := Nat.decLt _ _

/-- `a * b` evaluated in `t` (both operands already of type `t`, width ≥ int): unsigned wraps, signed overflow is UB -/
def mul (t : ITy) (a b : Nat) : Option Nat :=
  if t.signed then (if a * b < t.lim then some (a * b) else none) else some (a * b % t.lim)

/-- storing a non-negative 64-bit value into `t` (narrowing conversion): exact when it fits, modulo `2^w` when
    unsigned; a signed target receives a negative value, which this model does not represent -/
def store (t : ITy) (n : Nat) : Option Nat :=
  if n < t.lim then some n else if t.signed then none else some (n % t.lim)
end ITy

/-- `2^64`: number of values of `nm_size_t` / `size_t` on the platform of the harness -/
abbrev SZ : Nat := 18446744073709551616

/-- `static_cast<size_type>(x)` of a non-negative stored value -/
def szCast (n : Nat) : Nat := n % SZ

/-- the loop `p *= at(shape,j)` of `index::stride`, `p` of the element type `t` -/
def mStrideFrom (t : ITy) : Nat → List Nat → Option Nat
  | p, [] => some p
  | p, x :: xs => (t.mul p x).bind (fun q => mStrideFrom t q xs)

/-- `index::compute_strides(shape)` with element type `t`: entry `k` is `stride(shape,k)`, each computed from `p = 1` -/
def mStrides (t : ITy) : List Nat → Option (List Nat)
  | [] => some []
  | _ :: xs => (mStrideFrom t 1 xs).bind (fun p => (mStrides t xs).map (p :: ·))

/-- the run-time loop (and, term for term, the `template_for` branch) of `index::compute_offset` -/
def mOffsetFrom : Nat → List Nat → List Nat → Nat
  | acc, i :: is, s :: ss => mOffsetFrom ((acc + szCast s * szCast i % SZ) % SZ) is ss
  | acc, _, _ => acc

/-- `index::compute_offset(indices, strides)`: operands widened to 64 bit one by one -/
def mOffset (idx st : List Nat) : Nat := mOffsetFrom 0 idx st

/-- the variant in which the PRODUCT is formed in the element type `t` and widened afterwards
    (`static_cast<size_type>(at(strides,i) * at(indices,i))`): what the code must not do -/
def mOffsetNarrowFrom (t : ITy) : Nat → List Nat → List Nat → Option Nat
  | acc, i :: is, s :: ss => (t.mul s i).bind (fun p => mOffsetNarrowFrom t ((acc + szCast p) % SZ) is ss)
  | acc, _, _ => some acc
def mOffsetNarrow (t : ITy) (idx st : List Nat) : Option Nat := mOffsetNarrowFrom t 0 idx st

/-- `index::compute_indices(offset, shape, strides)`, offset a `size_t`, shape / strides / result of element type `t` -/
def mIndices (t : ITy) (off : Nat) : List Nat → List Nat → Option (List Nat)
  | sh :: shs, st :: sts =>
      if szCast st = 0 ∨ szCast sh = 0 then none
      else (t.store (off / szCast st % szCast sh)).bind (fun x => (mIndices t off shs sts).map (x :: ·))
  | _, _ => some []

/-- `index::compute_indices(offset, shape)` = `ndindex_t::operator[]`: strides first, in the same element type -/
def mNdindex (t : ITy) (s : List Nat) (off : Nat) : Option (List Nat) :=
  (mStrides t s).bind (fun st => mIndices t off s st)

end NmVerif
