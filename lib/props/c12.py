"""C12 — SIMD evaluation equals scalar evaluation for every size, shape and layout.

IMPL   : array::fn(args, ctx) for every SIMD context that builds here, next to array::fn(args) (scalar evaluator)
         in the same binary (harness/h_c12_<ctx>.cpp); the harness appends MISMATCH when the two differ.
MODEL  : lean/NmVerif/Simd/*.lean (packed loop + tail, enumerators) run on integer data by the driver.
ORACLE : NumPy on the logical arrays (independent statement of what the scalar evaluator must give).
"""
import numpy as np
from runner import Case
from shapes import prod, fmt

ID = 'C12'
LEVEL = 'proof'

# context -> register bits, harness source, extra compiler flags
CTXS = {
    'avx': dict(bits=256, src='h_c12_avx.cpp', extra=['-mavx2', '-mfma']),
}
DTYPES = {'f32': (np.float32, 4), 'f64': (np.float64, 8)}

UNARY_MODEL_OPS = ['floor', 'relu', 'ceil', 'relu6']            # exact on integer data, evaluated by the Lean model
UNARY_NUMPY_OPS = ['sqrt', 'ceil', 'floor']                     # IEEE-exact in NumPy: bit patterns compared
UNARY_ALL_OPS = ['sqrt', 'ceil', 'floor', 'relu', 'relu6', 'hardtanh', 'leaky_relu', 'prelu', 'softshrink', 'softsign',
                 'hardshrink', 'hardswish']

RULE = ('per SIMD context x dtype: every element count 1..4*lanes+1 (1-d) plus 2-d/3-d shapes, row- and column-major '
        'operands, integer provenance data through the Lean model + NumPy oracle, and eighth-valued random data '
        '(incl. -0.0) compared bitwise with the scalar evaluator in the same binary; non-trivial = element count '
        '>= lanes (the packed loop runs) or a broadcast / reduction over more than one element')
EXHAUSTIVE = {'quick': False, 'thorough': False}
ANCHORS = {
    'NmVerif.Simd.simdUnary': 'array::evaluator_t<view,simd_base_t<tag>>::eval_unary (eval/simd/evaluator/ufunc.hpp:38-86)',
}
ASSUMPTIONS = [
    'intrinsic wrappers are lane-wise (Props.C12.LaneWise1/LaneWise2): op.eval on a register = the scalar functor on each lane; '
    'hypothesis of the theorems, validated on this CPU by the bitwise IMPL-simd vs IMPL-scalar comparison of every run',
    'output of the evaluators is the row-major ndarray_t the default resolver produces (observed; modelled as such)',
]
PARTIAL = []
MANIFEST = dict(
    text='Proof: Lean theorems over all element counts and all lane counts > 0 for the packed loop + scalar tail '
         '(closed form of the chunk starts, every packed access inside the buffer, chunks and tail partition [0,n), '
         'SIMD unary = scalar evaluator on row-major operands) with the intrinsic wrappers as an explicit lane-wise '
         'hypothesis; tied to the C++ by a differential run of array::fn(args, ctx) against array::fn(args), the Lean '
         'model and NumPy on every check.',
    note='Lean kernel + propext/Classical.choice/Quot.sound; model hand-written, fidelity rests on the correspondence run; '
         'lane-wise behaviour of the intrinsics is a hypothesis, measured bitwise on this CPU only.',
    technique='Lean 4 induction proofs over element counts / lane counts + hardware differential (SIMD vs scalar evaluator)')


def lanes_of(ctx, dt):
    return CTXS[ctx]['bits'] // (8 * DTYPES[dt][1])


def hname(ctx, san=False):
    return 'h_c12_%s%s' % (ctx, '_san' if san else '')


def harness_specs(tier):
    specs = []
    for c, d in CTXS.items():
        specs.append(dict(name=hname(c), src=d['src'], flavour='fast', extra=d['extra']))
    return specs


# ------------------------------------------------------------------------------------------------
# formatting
# ------------------------------------------------------------------------------------------------

def fnum(x):
    x = float(x)
    if x == int(x) and not (x == 0 and np.signbit(x)) and abs(x) < 1e15:
        return str(int(x))
    return repr(x)


def fdata(xs):
    return ','.join(fnum(x) for x in xs)


def hexbits(arr, dt):
    t = DTYPES[dt][0]
    a = np.asarray(arr, dtype=t).ravel()
    if dt == 'f32':
        return ','.join('%08x' % int(v) for v in a.view(np.uint32))
    return ','.join('%016x' % int(v) for v in a.view(np.uint64))


def ints_str(arr):
    return ','.join(str(int(v)) for v in np.asarray(arr).ravel())


def logical(data, shape, layout, dt):
    """logical array of a buffer filled in buffer order"""
    return np.asarray(data, dtype=DTYPES[dt][0]).reshape(shape, order='F' if layout == 'col' else 'C')


def layout_matters(shape):
    return sum(1 for e in shape if e > 1) >= 2


# ------------------------------------------------------------------------------------------------
# reference semantics (NumPy)
# ------------------------------------------------------------------------------------------------

def unary_ref(op, x):
    if op in ('floor',):
        return np.floor(x)
    if op == 'ceil':
        return np.ceil(x)
    if op == 'sqrt':
        return np.sqrt(x)
    if op == 'relu':
        return np.where(x > 0, x, x.dtype.type(0))
    if op == 'relu6':
        return np.where(x < 0, x.dtype.type(0), np.where(x > 6, x.dtype.type(6), x))
    raise KeyError(op)


# ------------------------------------------------------------------------------------------------
# generators
# ------------------------------------------------------------------------------------------------

def shapes_for(L, tier, rng):
    """1-d: every element count 1..4L+1; a few 2-d / 3-d shapes around the lane count"""
    out = [[n] for n in range(1, 4 * L + 2)]
    nd = [[2, L], [3, L + 1], [L + 1, 3], [2, 2, L - 1], [1, 2 * L + 1], [L, 1], [2, 3, 2]]
    if tier == 'thorough':
        nd += [[r, c] for r in (1, 2, 3) for c in range(1, 2 * L + 2)]
    for _ in range(3 if tier == 'quick' else 20):
        r = rng.randint(2, 4)
        nd.append([rng.randint(1, 5) for _ in range(r)])
    return out + nd


def gen_unary(ctx, tier, rng):
    h = hname(ctx)
    for dt in DTYPES:
        L = lanes_of(ctx, dt)
        for si, shape in enumerate(shapes_for(L, tier, rng)):
            n = prod(shape)
            nt = n >= L
            layouts = ['row'] if len(shape) == 1 else ['row', 'col']
            for layout in layouts:
                # structural: integer provenance data 1..n (negatives for relu), three-way with the Lean model
                op = UNARY_MODEL_OPS[(si + len(layout)) % len(UNARY_MODEL_OPS)]
                data = list(range(1, n + 1))
                if op in ('relu', 'relu6'):
                    data = [v if (v % 3) else -v for v in data]
                x = logical(data, shape, layout, dt)
                exp = 'ok shape=%s val=%s' % (fmt(shape), ints_str(unary_ref(op, x)))
                req = 'unary dtype=%s op=%s lanes=%d shape=%s layout=%s fmt=int show=1 data=%s' % (dt, op, L, fmt(shape), layout, fdata(data))
                yield Case(req, h, dom=(layout == 'row'), oracle=exp, nontrivial=nt,
                           tags=['unary', 'ctx=' + ctx, dt, 'layout=' + layout, 'model', 'n<lanes' if n < L else ('n%lanes=0' if n % L == 0 else 'n%lanes!=0')])
            # values: every op, eighth-valued data, bitwise against the scalar evaluator (and NumPy where IEEE-exact)
            ops = UNARY_ALL_OPS if (tier == 'thorough' or len(shape) > 1 or n in (1, L - 1, L, L + 1, 2 * L + 1, 4 * L + 1)) else [UNARY_ALL_OPS[si % len(UNARY_ALL_OPS)], 'sqrt']
            for op in ops:
                data = [rng.randint(-64, 64) / 8.0 for _ in range(n)]
                if op == 'sqrt':
                    data = [abs(v) for v in data]
                if op in UNARY_NUMPY_OPS:
                    x = logical(data, shape, 'row', dt)
                    with np.errstate(all='ignore'):
                        exp = 'ok shape=%s val=%s' % (fmt(shape), hexbits(unary_ref(op, x), dt))
                    req = 'unary dtype=%s op=%s lanes=%d shape=%s layout=row fmt=hex show=1 data=%s' % (dt, op, L, fmt(shape), fdata(data))
                else:
                    exp = 'ok shape=%s agree' % fmt(shape)
                    req = 'unary dtype=%s op=%s lanes=%d shape=%s layout=row fmt=hex show=0 data=%s' % (dt, op, L, fmt(shape), fdata(data))
                yield Case(req, h, dom=True, oracle=exp, model=False, nontrivial=nt, tags=['unary', 'ctx=' + ctx, dt, 'values', 'op=' + op])


def gen(tier, rng):
    for ctx in CTXS:
        yield from gen_unary(ctx, tier, rng)


# ------------------------------------------------------------------------------------------------
# known findings: input classes (decided from the request only)
# ------------------------------------------------------------------------------------------------

def _args(case):
    parts = case.req.split()
    return parts[0], dict(p.split('=', 1) for p in parts[1:])


def _shape(s):
    return [] if s in ('[]', '') else [int(x) for x in s.split(',')]


def pred_colmajor(case):
    """some operand the SIMD evaluator reads through data() is column-major and its layout matters"""
    kind, a = _args(case)
    for lk, sk in (('layout', 'shape'), ('llayout', 'lshape'), ('rlayout', 'rshape')):
        if a.get(lk) == 'col' and layout_matters(_shape(a.get(sk, ''))):
            return True
    return False


KNOWN_PREDICATES = {
    'colmajor_operand': pred_colmajor,
}
