import NmVerif.Basic
/-
  Helper lemmas about strides / offsets / indices (used by C01, C02, C03, C06, C10, C13, C20).
  Property statements live in NmVerif/Props/*.lean, never here.
-/
namespace NmVerif

theorem offset_lt {idx s : List Nat} (h : InShape idx s) :
    computeOffset idx (strides s) < prod s := by
  induction s generalizing idx with
  | nil => cases idx <;> simp_all [InShape, computeOffset, prod, strides]
  | cons a t ih =>
    cases idx with
    | nil => simp [InShape] at h
    | cons i is =>
      simp only [InShape] at h
      have := ih h.2
      simp only [computeOffset, strides, prod]
      calc prod t * i + computeOffset is (strides t) < prod t * i + prod t := by omega
        _ = prod t * (i+1) := by rw [Nat.mul_succ]
        _ ≤ prod t * a := Nat.mul_le_mul_left _ h.1
        _ = a * prod t := Nat.mul_comm _ _

/-- adding a multiple of `prod t` does not change the inner indices -/
theorem indices_add_mul (t : List Nat) (c r : Nat) :
    computeIndices (prod t * c + r) t (strides t) = computeIndices r t (strides t) := by
  induction t generalizing c r with
  | nil => simp [computeIndices, strides]
  | cons a u ih =>
    simp only [strides, computeIndices, prod]
    congr 1
    · by_cases hp : prod u = 0
      · simp [hp]
      · have hp' : 0 < prod u := Nat.pos_of_ne_zero hp
        have : a * prod u * c + r = prod u * (a * c) + r := by
          rw [Nat.mul_comm a (prod u), Nat.mul_assoc]
        rw [this, Nat.mul_add_div hp', Nat.add_comm, Nat.add_mul_mod_self_left]
    · have : a * prod u * c + r = prod u * (a * c) + r := by
        rw [Nat.mul_comm a (prod u), Nat.mul_assoc]
      rw [this]; exact ih (a*c) r

theorem indices_offset {idx s : List Nat} (h : InShape idx s) :
    computeIndices (computeOffset idx (strides s)) s (strides s) = idx := by
  induction s generalizing idx with
  | nil => cases idx <;> simp_all [InShape, computeIndices, strides]
  | cons a t ih =>
    cases idx with
    | nil => simp [InShape] at h
    | cons i is =>
      simp only [InShape] at h
      have hlt := offset_lt h.2
      have hp : 0 < prod t := by omega
      simp only [computeOffset, strides, computeIndices]
      congr 1
      · rw [Nat.mul_add_div hp, Nat.div_eq_of_lt hlt, Nat.add_zero, Nat.mod_eq_of_lt h.1]
      · rw [indices_add_mul]; exact ih h.2

theorem indices_inShape_gen {s : List Nat} (hs : Pos s) (off : Nat) (st : List Nat)
    (hl : st.length = s.length) : InShape (computeIndices off s st) s := by
  induction s generalizing st with
  | nil => cases st <;> simp_all [computeIndices, InShape]
  | cons a t ih =>
    cases st with
    | nil => simp at hl
    | cons b u =>
      simp only [computeIndices, InShape]
      exact ⟨Nat.mod_lt _ hs.head, ih hs.tail u (by simpa using hl)⟩

theorem indices_inShape {s : List Nat} (hs : Pos s) (off : Nat) :
    InShape (computeIndices off s (strides s)) s :=
  indices_inShape_gen hs off _ (strides_length s)

theorem offset_indices {s : List Nat} (hs : Pos s) {off : Nat} (h : off < prod s) :
    computeOffset (computeIndices off s (strides s)) (strides s) = off := by
  induction s generalizing off with
  | nil => simp [prod] at h; simp [computeIndices, computeOffset, strides, h]
  | cons a t ih =>
    have hpt : 0 < prod t := prod_pos hs.tail
    simp only [strides, computeIndices, computeOffset]
    have hq : off / prod t < a := by
      rw [Nat.div_lt_iff_lt_mul hpt]; simpa [prod] using h
    rw [Nat.mod_eq_of_lt hq]
    have : computeIndices off t (strides t) = computeIndices (off % prod t) t (strides t) := by
      conv => lhs; rw [← Nat.div_add_mod off (prod t)]
      exact indices_add_mul t _ _
    rw [this, ih hs.tail (Nat.mod_lt _ hpt)]
    exact Nat.div_add_mod off (prod t)

/-- offsets are injective on in-shape indices (distinct indices → distinct cells). -/
theorem offset_injective {i j s : List Nat} (hi : InShape i s) (hj : InShape j s)
    (h : computeOffset i (strides s) = computeOffset j (strides s)) : i = j := by
  rw [← indices_offset hi, ← indices_offset hj, h]

/-! ### enumeration order -/

theorem range_mul_flatMap (a p : Nat) :
    List.range (a * p) = (List.range a).flatMap (fun i => (List.range p).map (fun r => i * p + r)) := by
  induction a with
  | zero => simp
  | succ n ih =>
    rw [List.range_succ, List.flatMap_append, ← ih]
    simp only [List.flatMap_cons, List.flatMap_nil, List.append_nil]
    rw [Nat.succ_mul, List.range_add]

theorem flatMap_congr' {α β} (l : List α) (f g : α → List β) (h : ∀ a ∈ l, f a = g a) :
    l.flatMap f = l.flatMap g := by
  induction l with
  | nil => rfl
  | cons x xs ih =>
    simp only [List.flatMap_cons]
    rw [h x (by simp), ih (fun a ha => h a (by simp [ha]))]

theorem ndindex_cons (a : Nat) (t : List Nat) (ht : Pos t) (i r : Nat) (hr : r < prod t) (hi : i < a) :
    ndindex (a :: t) (i * prod t + r) = i :: ndindex t r := by
  have hp : 0 < prod t := prod_pos ht
  simp only [ndindex, strides, computeIndices]
  congr 1
  · rw [Nat.mul_comm i, Nat.mul_add_div hp, Nat.div_eq_of_lt hr, Nat.add_zero, Nat.mod_eq_of_lt hi]
  · rw [Nat.mul_comm i]; exact indices_add_mul t i r

theorem map_ndindex_range (s : List Nat) (hs : Pos s) :
    (List.range (prod s)).map (ndindex s) = allIdx s := by
  induction s with
  | nil => simp [prod, allIdx, ndindex, computeIndices]
  | cons a t ih =>
    simp only [prod, allIdx]
    rw [range_mul_flatMap, List.map_flatMap]
    apply flatMap_congr'
    intro i hi
    rw [List.map_map, ← ih hs.tail, List.map_map]
    apply List.map_congr_left
    intro r hr
    simp only [Function.comp]
    exact ndindex_cons a t hs.tail i r (by simpa using hr) (by simpa using hi)

/-! ### column major -/

theorem computeOffset_reverse (i st : List Nat) (hl : i.length = st.length) :
    computeOffset i.reverse st.reverse = computeOffset i st := by
  induction i generalizing st with
  | nil => cases st <;> simp_all [computeOffset]
  | cons x xs ih =>
    cases st with
    | nil => simp at hl
    | cons y ys =>
      have hl' : xs.length = ys.length := by simpa using hl
      simp only [List.reverse_cons, computeOffset]
      rw [← ih ys hl']
      -- computeOffset (xs.reverse ++ [x]) (ys.reverse ++ [y])
      have key : ∀ (p q : List Nat), p.length = q.length →
          computeOffset (p ++ [x]) (q ++ [y]) = y * x + computeOffset p q := by
        intro p
        induction p with
        | nil => intro q hq; cases q <;> simp_all [computeOffset]
        | cons a as ih2 =>
          intro q hq
          cases q with
          | nil => simp at hq
          | cons b bs =>
            simp only [List.cons_append, computeOffset]
            rw [ih2 bs (by simpa using hq)]; omega
      exact key _ _ (by simp [hl'])

theorem InShape_reverse {i s : List Nat} (h : InShape i s) : InShape i.reverse s.reverse := by
  have key : ∀ (p q : List Nat) (x y : Nat), InShape p q → x < y → InShape (p ++ [x]) (q ++ [y]) := by
    intro p
    induction p with
    | nil => intro q x y hq hxy; cases q <;> simp_all [InShape]
    | cons a as ih =>
      intro q x y hq hxy
      cases q with
      | nil => simp [InShape] at hq
      | cons b bs =>
        simp only [InShape] at hq
        simp only [List.cons_append, InShape]
        exact ⟨hq.1, ih bs x y hq.2 hxy⟩
  induction s generalizing i with
  | nil => cases i <;> simp_all [InShape]
  | cons a t ih =>
    cases i with
    | nil => simp [InShape] at h
    | cons x xs =>
      simp only [InShape] at h
      simp only [List.reverse_cons]
      exact key _ _ _ _ (ih h.2) h.1

/-- column-major offset of `i` = row-major offset of the reversed index in the reversed shape -/
theorem colOffset_eq (i s : List Nat) (hl : i.length = s.length) :
    computeOffset i (colStrides s) = computeOffset i.reverse (strides s.reverse) := by
  unfold colStrides
  rw [← computeOffset_reverse i.reverse (strides s.reverse)
        (by simp [strides_length, hl])]
  simp

theorem colOffset_lt {i s : List Nat} (h : InShape i s) :
    computeOffset i (colStrides s) < prod s := by
  rw [colOffset_eq i s h.length_eq, ← prod_reverse s]
  exact offset_lt (InShape_reverse h)

theorem colOffset_injective {i j s : List Nat} (hi : InShape i s) (hj : InShape j s)
    (h : computeOffset i (colStrides s) = computeOffset j (colStrides s)) : i = j := by
  rw [colOffset_eq i s hi.length_eq, colOffset_eq j s hj.length_eq] at h
  have := offset_injective (InShape_reverse hi) (InShape_reverse hj) h
  simpa using congrArg List.reverse this

end NmVerif
