import NmVerif.Containers.Spec
import NmVerif.Containers.VectorProofs
import NmVerif.Containers.VectorLedger
/-
  "Refinement up to fresh elements": the `utl::vector` mirror against `std::vector` whose value-initialised
  elements are *marked* (`none`) until they are written.  On every history (without aliasing pushes) the
  implementation agrees with the reference on every element that is not a still-unwritten fresh one — i.e. the
  missing value-initialisation is the only way in which the contents can differ.
-/
namespace NmVerif.Containers
variable {α : Type}

/-- `std::vector` with provenance: `none` = element created by value-initialisation and not written since -/
def markedSpec : Impl (List (Cell α)) α where
  mkDefault L := ([], L)
  mkSized n L := (List.replicate n none, L)
  mkVariadic vs L := (vs.map some, L)
  mkCopy l L := (l, L)
  assign _ src L := (src, L)
  assignSelf l L := (l, L)
  push l a L := (l ++ [some a], L)
  pushAt l i L := (match l[i]? with | some c => l ++ [c] | none => l, L)
  resize l n L := (if n ≤ l.length then l.take n else l ++ List.replicate (n - l.length) none, L)
  write l i a L := (l.set i (some a), L)
  read l i L := (match l[i]? with | some c => c | none => none, L)
  destroy _ L := L
  size l := l.length
  view l := l

/-- a fresh element reads as the value-initialised `zero` -/
def unmark (zero : α) : Cell α → α
  | some a => a
  | none => zero

/-- the client-visible cells agree with the marked reference wherever the latter holds a definite value -/
def Agree (v l : List (Cell α)) : Prop :=
  v.length = l.length ∧ ∀ (i : Nat) (a : α), l[i]? = some (some a) → v[i]? = some (some a)

theorem agree_push {v l : List (Cell α)} (h : Agree v l) (a : α) : Agree (v ++ [some a]) (l ++ [some a]) := by
  refine ⟨by simp [h.1], ?_⟩
  intro i b hb
  by_cases hi : i < l.length
  · rw [List.getElem?_append_left hi] at hb
    rw [List.getElem?_append_left (by rw [h.1]; exact hi)]
    exact h.2 i b hb
  · rw [List.getElem?_append_right (by omega)] at hb
    rw [List.getElem?_append_right (by rw [h.1]; omega), h.1]
    exact hb

theorem agree_fresh {v l t : List (Cell α)} (h : Agree v l) (k : Nat) (ht : t.length = k) :
    Agree (v ++ t) (l ++ List.replicate k none) := by
  refine ⟨by simp [h.1, ht], ?_⟩
  intro i b hb
  by_cases hi : i < l.length
  · rw [List.getElem?_append_left hi] at hb
    rw [List.getElem?_append_left (by rw [h.1]; exact hi)]
    exact h.2 i b hb
  · rw [List.getElem?_append_right (by omega)] at hb
    simp [List.getElem?_replicate] at hb

theorem agree_take {v l : List (Cell α)} (h : Agree v l) (n : Nat) : Agree (v.take n) (l.take n) := by
  refine ⟨by simp [List.length_take, h.1], ?_⟩
  intro i b hb
  rw [List.getElem?_take] at hb ⊢
  by_cases hi : i < n
  · simp only [hi, if_true] at hb ⊢; exact h.2 i b hb
  · simp [hi] at hb

theorem agree_set {v l : List (Cell α)} (h : Agree v l) (i : Nat) (a : α) : Agree (v.set i (some a)) (l.set i (some a)) := by
  refine ⟨by simp [h.1], ?_⟩
  intro j b hb
  rw [List.getElem?_set] at hb ⊢
  by_cases hj : i = j
  · subst hj
    by_cases hl : i < l.length
    · have hv : i < v.length := by rw [h.1]; exact hl
      simp only [hl, hv, if_true] at hb ⊢; exact hb
    · simp [hl] at hb
  · simp only [hj, if_false] at hb ⊢; exact h.2 j b hb

namespace Vec

theorem resize_grow_view (v : Vec α) (n : Nat) (L : Ledger) (h : v.Inv) (hn : v.size < n) :
    ∃ t, (v.resize n L).1.view = v.view ++ t ∧ t.length = n - v.size := by
  obtain ⟨p, hp⟩ := Option.isSome_iff_exists.mp h.blk
  have h1 := h.len; have h2 := h.le
  unfold resize
  simp only [hp]
  by_cases hc : v.cap < n
  · refine ⟨List.replicate (n - v.size) none, ?_, by simp⟩
    simp only [hc, if_true, view]
    rw [List.take_of_length_le]
    simp [List.length_take]; omega
  · refine ⟨(v.cells.take n).drop v.size, ?_, ?_⟩
    · simp only [hc, if_false, view]
      have : v.cells.take v.size = (v.cells.take n).take v.size := by
        rw [List.take_take]; congr 1; omega
      rw [this, List.take_append_drop]
    · simp [List.length_take]; omega

end Vec

/-- refinement relation towards the marked reference -/
def RMark (v : Vec α) (l : List (Cell α)) : Prop := v.Inv ∧ Agree v.view l

def noAlias : Option (List (Cell α)) → Op α → Prop
  | _, .pushAt _ _ => False
  | _, _ => True

theorem mark_sim : Sim (vecImpl α) (markedSpec (α := α)) RMark noAlias where
  size_eq := fun x y h => by
    have := Vec.view_length x h.1
    show x.size = y.length
    rw [← this]; exact h.2.1
  mkDefault := fun s L M _ => ⟨Vec.mkDefault_inv L, by simp [vecImpl, markedSpec, Vec.mkDefault, Vec.view, Agree]⟩
  mkSized := fun s n L M _ => by
    refine ⟨?_, ?_, ?_⟩
    · simp only [vecImpl, Vec.mkSized_eq]; exact ⟨by simp, by simp, by simp⟩
    · simp [vecImpl, markedSpec, Vec.mkSized_eq, Vec.view]
    · intro i a hi
      simp [markedSpec, List.getElem?_replicate] at hi
  mkVariadic := fun s vs L M _ => ⟨(Vec.mkVariadic_spec vs L).1, by
    show Agree (Vec.mkVariadic vs L).1.view (vs.map some)
    rw [(Vec.mkVariadic_spec vs L).2]; exact ⟨rfl, fun _ _ h => h⟩⟩
  mkCopy := fun d s x y L M _ h => ⟨(Vec.mkCopy_spec x L h.1).1, by
    show Agree (Vec.mkCopy x L).1.view y
    rw [(Vec.mkCopy_spec x L h.1).2]; exact h.2⟩
  assign := fun d s x y x' y' L M _ h h' => ⟨(Vec.assign_spec x x' L h.1 h'.1).1, by
    show Agree (Vec.assign x x' L).1.view y'
    rw [(Vec.assign_spec x x' L h.1 h'.1).2]; exact h'.2⟩
  assignSelf := fun d x y L M _ h => by
    show RMark (Vec.assignSelf x L).1 y
    rw [Vec.assignSelf_eq x L h.1]; exact h
  push := fun s a x y L M _ h => ⟨(Vec.push_spec x a L h.1).1, by
    show Agree (Vec.push x a L).1.view (y ++ [some a])
    rw [(Vec.push_spec x a L h.1).2]; exact agree_push h.2 a⟩
  pushAt := fun s i x y L M hok _ _ => by simp [noAlias] at hok
  resize := fun s n x y L M _ h => by
    have hsz : x.size = y.length := by
      have := Vec.view_length x h.1
      rw [← this]; exact h.2.1
    refine ⟨Vec.resize_inv x n L h.1, ?_⟩
    show Agree (Vec.resize x n L).1.view (if n ≤ y.length then y.take n else y ++ List.replicate (n - y.length) none)
    by_cases hn : n ≤ y.length
    · simp only [hn, if_true]
      rw [Vec.resize_shrink_view x n L h.1 (by omega)]
      exact agree_take h.2 n
    · simp only [hn, if_false]
      obtain ⟨t, ht, hl⟩ := Vec.resize_grow_view x n L h.1 (by omega)
      rw [ht]
      exact agree_fresh h.2 _ (by omega)
  write := fun s i a x y L M _ h hi => by
    have hsz : x.size = y.length := by
      have := Vec.view_length x h.1
      rw [← this]; exact h.2.1
    have hi' : i < x.size := by rw [hsz]; exact hi
    refine ⟨(Vec.write_spec x i a L h.1 hi').1, ?_⟩
    show Agree (Vec.write x i a L).1.view (y.set i (some a))
    rw [(Vec.write_spec x i a L h.1 hi').2]
    exact agree_set h.2 i a

/-- forgetting the marks gives `std::vector` (no excluded operation) -/
theorem unmark_sim (zero : α) :
    Sim (markedSpec (α := α)) (stdSpec zero) (fun l m => m = l.map (unmark zero)) (fun _ _ => True) where
  size_eq := fun x y h => by subst h; simp [markedSpec, stdSpec]
  mkDefault := fun s L M _ => by simp [markedSpec, stdSpec]
  mkSized := fun s n L M _ => by simp [markedSpec, stdSpec, unmark]
  mkVariadic := fun s vs L M _ => by simp [markedSpec, stdSpec, Function.comp_def, unmark]
  mkCopy := fun d s x y L M _ h => h
  assign := fun d s x y x' y' L M _ _ h' => h'
  assignSelf := fun d x y L M _ h => h
  push := fun s a x y L M _ h => by subst h; simp [markedSpec, stdSpec, unmark]
  pushAt := fun s i x y L M _ h hi => by
    subst h
    have hi' : i < x.length := by simpa [stdSpec] using hi
    simp [markedSpec, stdSpec, List.getElem?_eq_getElem hi', hi']
  resize := fun s n x y L M _ h => by
    subst h
    simp only [markedSpec, stdSpec, listResize, List.length_map]
    by_cases hn : n ≤ x.length
    · simp [hn, List.map_take]
    · simp [hn, unmark]
  write := fun s i a x y L M _ h _ => by subst h; simp [markedSpec, stdSpec, List.map_set, unmark]

end NmVerif.Containers
