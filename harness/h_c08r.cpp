// C08 harness, TU 3: the named routines sum / prod / amax / amin / cumsum / cumprod, as lazy views (view::X, elements
// read through apply_at) and eagerly (array::X = eval), int arrays, optional dtype (int64 / float32 / float64).
#include "nmtools/array/array/sum.hpp"
#include "nmtools/array/array/prod.hpp"
#include "nmtools/array/array/ufuncs/amax.hpp"
#include "nmtools/array/array/ufuncs/amin.hpp"
#include "nmtools/array/array/cumsum.hpp"
#include "nmtools/array/array/cumprod.hpp"
#include "nmtools/array/ndarray.hpp"
#include "c08_common.hpp"
#include <vector>

namespace nm = nmtools; namespace na = nmtools::array; namespace view = nmtools::view;
using namespace proto;
using iarr_t = na::ndarray_t<std::vector<int>, std::vector<size_t>>;

template <typename F> static std::string with_dtype(const Args& a, F f) {
    std::string d = has(a, "dtype") ? get(a, "dtype") : "None";
    if (d == "None") return f(nm::None);
    if (d == "i64") return f(nm::int64);
    if (d == "f32") return f(nm::float32);
    if (d == "f64") return f(nm::float64);
    throw bad_args("dtype");
}

#define REDUCE_ROUTINE(FN, NAME)                                                                                         \
    static std::string FN(const iarr_t& arr, const Args& a, bool eager) {                                                \
        bool keep = c08::keepdims_of(a);                                                                                 \
        bool dt = has(a, "dtype") && get(a, "dtype") != "None";                                                           \
        if (dt) {   /* dtype given: vector axis, initial absent or present */                                            \
            auto ax = intsi(a, "axis");                                                                                   \
            return with_dtype(a, [&](auto dtype) {                                                                       \
                return c08::with_init<int>(a, [&](auto init) {                                                            \
                    return eager ? c08::emit(na::NAME(arr, ax, dtype, init, keep)) : c08::emit(view::NAME(arr, ax, dtype, init, keep)); }); }); \
        }                                                                                                                 \
        return c08::with_axis(a, [&](const auto& axis) {                                                                  \
            return c08::with_init<int>(a, [&](auto init) {                                                                \
                return eager ? c08::emit(na::NAME(arr, axis, nm::None, init, keep)) : c08::emit(view::NAME(arr, axis, nm::None, init, keep)); }); }); \
    }
// the shorter overloads of sum / prod: (a, axis, dtype, initial) and (a, axis)
// (view::prod(a, axis) is not instantiated: its unqualified inner call `prod(a,axis,None,None)` is ambiguous with
//  array::prod through ADL once array/prod.hpp is visible — a compile-time usability defect, no run-time behaviour)
#define SHORT_ROUTINE(FN, NAME, TWO)                                                                                           \
    static std::string FN(const iarr_t& arr, const Args& a, const std::string& api) {                                     \
        if (c08::keepdims_of(a)) throw bad_args("keepdims");                                                              \
        return c08::with_axis(a, [&](const auto& axis) {                                                                  \
            if (api == "view2") { if (has(a, "init") && !is_none(a, "init")) throw bad_args("init"); return TWO; }              \
            return c08::with_init<int>(a, [&](auto init) { return c08::emit(view::NAME(arr, axis, nm::None, init)); }); }); \
    }
SHORT_ROUTINE(s_sum, sum, c08::emit(view::sum(arr, axis)))
SHORT_ROUTINE(s_prod, prod, std::string("unknown-op"))
REDUCE_ROUTINE(r_sum, sum)
REDUCE_ROUTINE(r_prod, prod)
REDUCE_ROUTINE(r_amax, amax)
REDUCE_ROUTINE(r_amin, amin)

#define ACC_ROUTINE(FN, NAME)                                                                                             \
    static std::string FN(const iarr_t& arr, const Args& a, bool eager) {                                                \
        int axis = (int)integer(a, "axis");                                                                               \
        return with_dtype(a, [&](auto dtype) {                                                                           \
            return eager ? c08::emit(na::NAME(arr, axis, dtype)) : c08::emit(view::NAME(arr, axis, dtype)); });            \
    }
ACC_ROUTINE(r_cumsum, cumsum)
ACC_ROUTINE(r_cumprod, cumprod)

std::string handle(const std::string& op, const Args& a) {
    if (op != "reduce" && op != "accumulate") return "unknown-op";
    auto arr = c08::make_array<iarr_t>(a);
    const std::string& f = get(a, "op");
    std::string api = get(a, "api");
    bool eager = api == "array";
    if (op == "reduce" && (api == "view4" || api == "view2")) {
        if (f == "add") return s_sum(arr, a, api);
        if (f == "mul") return s_prod(arr, a, api);
        return "unknown-op";
    }
    if (api != "array" && api != "view") throw bad_args("api");
    if (op == "reduce") {
        if (f == "add") return r_sum(arr, a, eager);
        if (f == "mul") return r_prod(arr, a, eager);
        if (f == "max") return r_amax(arr, a, eager);
        if (f == "min") return r_amin(arr, a, eager);
    } else {
        if (f == "add") return r_cumsum(arr, a, eager);
        if (f == "mul") return r_cumprod(arr, a, eager);
    }
    return "unknown-op";
}
