import NmVerif.Arr
/-
  NmVerif.Index.Flip — MODEL of
    include/nmtools/array/index/flip.hpp   index::flip_slices   (axis i gets the slice (None, None, -1) iff "in axes")
    include/nmtools/array/view/flip.hpp    view::flip = apply_slice(array, flip_slices(dim, axes))

  The slice machinery is C05's; here the effect of a `(None, None, -1)` slice on an axis of extent `n` is modelled
  directly as `i ↦ n-1-i` with unchanged extent (validated against the real headers by the correspondence run).
  What IS mirrored from flip.hpp: membership of axis `i` in `axes` is decided by comparing the RAW entries with `i`
  (`(common_t)ii == (common_t)i`, `(size_t)axes == i`): a negative entry never matches, and is silently ignored.

  Stable names:
    flipInAxis axes i   : Bool                   axes : Option (List Int), `none` = all axes
    flipIdx    src axes : Idx → Idx
    flipView   src axes : Option IxView          (always `some`: the C++ never returns Nothing here)

  Core Lean only.
-/
namespace NmVerif

/-- `in_axis` of `flip_slices`: raw comparison, no normalisation -/
def flipInAxis (axes : Option (List Int)) (i : Nat) : Bool :=
  match axes with
  | none => true
  | some ax => ax.any (fun a => a == (i : Int))

/-- positions `k, k+1, …` of the index: flipped where in axes -/
def flipGo (axes : Option (List Int)) : Nat → Shape → Idx → Idx
  | k, n :: ns, i :: is => (if flipInAxis axes k then n - 1 - i else i) :: flipGo axes (k+1) ns is
  | _, _, _ => []

def flipIdx (src : Shape) (axes : Option (List Int)) (d : Idx) : Idx := flipGo axes 0 src d

def flipView (src : Shape) (axes : Option (List Int)) : Option IxView :=
  some ⟨src, src, fun d => some (flipIdx src axes d)⟩

end NmVerif
