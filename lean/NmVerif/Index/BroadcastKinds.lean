import NmVerif.Index.Broadcast
import NmVerif.Index.BroadcastExpr
/-
  NmVerif.Index.BroadcastKinds — where the CONTAINER KIND of a shape changes what the broadcasting index functions
  return (C06, mixed-kind harness).  The functions of Index/Broadcast.lean are kind-blind (`List Nat` for every
  container); the definitions here mirror the places of the C++ where the result CONTAINER is chosen from the
  operand types and can be too small for the value.

  * `resolveBroadcast` mirrors `meta::resolve_optype<void, index::broadcast_shape_t, A, B>` (broadcast_shape.hpp:307-510):
    which result container `index::broadcast_shape` gets from the operand TYPES — a constant tuple computed at compile
    time, a tuple / array of clipped integers with bounds, a fixed array, a bounded vector, a vector — and
    `RType.store` what happens to the computed extents when they are assigned into it (a clipped integer clamps, a
    bounded vector ignores a resize beyond its capacity: the NMTOOLS_VERIF hook events 2 and 1).  `BExpr.keval`
    evaluates a nest of calls under the operand kinds, intermediate results keeping their container.
    The mixed-kind harness prints `value@container` for every clause (request `k6t`) and the driver answers with this
    model: the resolver model is under the correspondence run, not only the values.
  * `sbtNoneClipped`: the None overload of `shape_broadcast_to` with a clipped target (known finding).

  Core Lean only (linked into the `driver` executable).
-/
namespace NmVerif

/-- what the TYPE of a shape operand tells `meta::resolve_optype<void, index::broadcast_shape_t, A, B>` -/
structure KInfo where
  /-- `is_none_v` -/
  isNone : Bool := false
  /-- `is_constant_index_array_v`: the values are part of the type -/
  const : Bool := false
  /-- `is_clipped_index_array_v`: `to_value_v` = the bounds -/
  bounds : Option (List Nat) := none
  /-- `meta::len_v` (0 = the length is not known at compile time) -/
  lenv : Nat := 0
  /-- `meta::bounded_size_v` (`none` = a failure type) -/
  bsize : Option Nat := none
  /-- the clipped integers sit in an `nmtools_array` (one common bound), not in a tuple: no branch of the resolver
      looks at this, it only decides which container a None operand passes through -/
  clippedArray : Bool := false
  deriving DecidableEq, Repr

/-- result container chosen by the resolver -/
inductive RType where
  /-- `BROADCAST_SHAPE_ERROR` / `…_UNSUPPORTED`: the call does not compile -/
  | error
  | noneT
  /-- `tuple<ct<v>…>`: the value is computed at compile time -/
  | constT (vals : Shape)
  /-- `tuple<clipped_size_t<b>…>` -/
  | clippedT (bounds : List Nat)
  /-- `nmtools_array<index_t,n>` (also a 1-d fixed_ndarray passed through by a None operand) -/
  | arr (n : Nat)
  /-- `nmtools_array<clipped_integer_t<index_t,0,m>,n>` -/
  | clippedArr (m n : Nat)
  /-- `static_vector<index_t,cap>` (also a 1-d hybrid_ndarray passed through) -/
  | svec (cap : Nat)
  /-- `nmtools_list<index_t>` -/
  | list
  deriving DecidableEq, Repr

/-- a shape operand: what its type says, and its run-time value -/
structure KShape where
  info : KInfo
  vals : Shape
  deriving DecidableEq, Repr

namespace KInfo
def none' : KInfo := { isNone := true }
def ct (n : Nat) : KInfo := { const := true, lenv := n, bsize := some n }
def cl (bounds : List Nat) : KInfo := { bounds := some bounds, lenv := bounds.length, bsize := some bounds.length }
def arr (n : Nat) : KInfo := { lenv := n, bsize := some n }
def sv (cap : Nat) : KInfo := { bsize := some cap }
def dyn : KInfo := {}
end KInfo

def listMax : List Nat → Nat
  | [] => 0
  | x :: xs => max x (listMax xs)

/-- the type an operand has as a RESULT type (a None operand passes the other operand's type through) -/
def RType.ofOperand (a : KShape) : RType :=
  if a.info.isNone then .noneT
  else if a.info.const then .constT a.vals
  else match a.info.bounds with
    | some bs => if a.info.clippedArray then .clippedArr (listMax bs) bs.length else .clippedT bs
    | none =>
      if a.info.lenv > 0 then .arr a.info.lenv
      else match a.info.bsize with
        | some c => .svec c
        | none => .list

/-- what a result type says when it is used as an operand again (the `is_maybe` overloads unwrap it) -/
def RType.info : RType → KInfo
  | .error => {}
  | .noneT => KInfo.none'
  | .constT v => KInfo.ct v.length
  | .clippedT bs => KInfo.cl bs
  | .arr n => KInfo.arr n
  | .clippedArr m n => { KInfo.cl (List.replicate n m) with clippedArray := true }
  | .svec c => KInfo.sv c
  | .list => KInfo.dyn

/-- `to_value_v`: the values of a constant shape, the bounds of a clipped one -/
def KShape.toValue (a : KShape) : Option Shape :=
  if a.info.const then some a.vals else a.info.bounds

/-- the constant operand `A` (longer or equally long) against a fixed-length run-time operand
    (broadcast_shape.hpp:373-396): clipped bounds `A_i` as long as every `A_i > 1` -/
def constVsFixed (A : Shape) (n : Nat) : RType :=
  if A.all (fun v => decide (1 < v)) then .clippedT A else .arr n

/-- the constant operand `A` against a bounded-length run-time operand (broadcast_shape.hpp:400-443) -/
def constVsBounded (A : Shape) (dim : Nat) : RType :=
  if A.any (fun v => v == 1) then .svec dim else .clippedArr (listMax A) A.length

/-- `is_constant_index_array_v || is_clipped_index_array_v`: `to_value_v` exists -/
def KShape.isStatic (a : KShape) : Bool := a.info.const || a.info.bounds.isSome

/-- both operands known at compile time (constant values / clipped bounds `A`, `B`): the broadcast is computed on
    them at compile time (broadcast_shape.hpp:317-351) -/
def resolveStatic (bothConst : Bool) (n : Nat) (A B : Shape) : RType :=
  match broadcastShape2 A B with
  | some R => if bothConst then .constT R else .clippedT R
  | none => if bothConst then .error else .arr n

/-- both lengths known at compile time (broadcast_shape.hpp:371-399) -/
def resolveFixed (a b : KShape) : RType :=
  let n := max a.info.lenv b.info.lenv
  if a.info.const && decide (a.info.lenv ≥ b.info.lenv) then constVsFixed a.vals n
  else if b.info.const && decide (b.info.lenv ≥ a.info.lenv) then constVsFixed b.vals n
  else .arr n

/-- `a` of known length against an operand of bounded length `cb` (broadcast_shape.hpp:400-485) -/
def resolveVsBounded (a : KShape) (cb : Nat) : RType :=
  let dim := max a.info.lenv cb
  if a.info.const && decide (a.info.lenv ≥ cb) then constVsBounded a.vals dim else .svec dim

/-- two index arrays, not both static (broadcast_shape.hpp:362-494) -/
def resolveIndex (a b : KShape) : RType :=
  if a.info.lenv > 0 ∧ b.info.lenv > 0 then resolveFixed a b
  else match decide (a.info.lenv > 0), b.info.bsize with
    | true, some cb => resolveVsBounded a cb
    | _, _ =>
      match decide (b.info.lenv > 0), a.info.bsize with
      | true, some ca => resolveVsBounded b ca
      | _, _ =>
        match a.info.bsize, b.info.bsize with
        | some ca, some cb => .svec (max ca cb)
        | _, _ => .list

/-- `meta::resolve_optype<void, index::broadcast_shape_t, ashape_t, bshape_t>` (broadcast_shape.hpp:307-510) -/
def resolveBroadcast (a b : KShape) : RType :=
  if a.isStatic && b.isStatic then
    match a.toValue, b.toValue with
    | some A, some B => resolveStatic (a.info.const && b.info.const) (max a.info.lenv b.info.lenv) A B
    | _, _ => .error
  else if a.info.isNone then (if b.info.isNone then .noneT else RType.ofOperand b)
  else if b.info.isNone then RType.ofOperand a
  else resolveIndex a b

/-- storing the computed extents `r` into the result container: `(stored value, clamp events, capacity events)` -/
def RType.store (t : RType) (r : Shape) : Shape × Nat × Nat :=
  match t with
  | .clippedT bs => (List.zipWith min r bs, (List.zipWith (fun v b => if v > b then 1 else 0) r bs).sum, 0)
  | .clippedArr m _ => (r.map (min · m), (r.map (fun v => if v > m then 1 else 0)).sum, 0)
  | .svec c => if r.length ≤ c then (r, 0, 0) else ([], 0, 1)
  | _ => (r, 0, 0)

/-- result of one `index::broadcast_shape(a, b)` under the operand kinds -/
structure KOut where
  ty : RType
  /-- `none` = Nothing -/
  val : Option Shape
  clamps : Nat := 0
  overflows : Nat := 0
  deriving DecidableEq, Repr

/-- the values a result type carries in the type itself -/
def RType.constVals : RType → Shape
  | .constT v => v
  | _ => []

/-- a result type used as operand type again (the `is_maybe` overloads unwrap it) -/
def RType.asOperand (t : RType) : KShape := { info := t.info, vals := t.constVals }

/-- an operand seen as a (never failing) result -/
def KShape.out (a : KShape) : KOut := { ty := RType.ofOperand a, val := some a.vals }

/-- the run-time part of one call with result container `t`: Nothing is sticky (the `is_maybe` overloads), the loop
    result is stored into `t` -/
def kRuntime (t : RType) (xv yv : Option Shape) : KOut :=
  match xv, yv with
  | some a, some b =>
    match broadcastShape2 a b with
    | none => { ty := t, val := none }
    | some r => { ty := t, val := some (t.store r).1, clamps := (t.store r).2.1, overflows := (t.store r).2.2 }
  | _, _ => { ty := t, val := none }

/-- `index::broadcast_shape(x, y)` on results of earlier calls (or plain operands): the TYPE is resolved from the
    operand types alone (`none` = the call does not compile); a constant result is the value computed at compile
    time; otherwise `kRuntime`.  The hook events of the operands' own computations are carried along. -/
def kPair (x y : KOut) : Option KOut :=
  let t := resolveBroadcast x.ty.asOperand y.ty.asOperand
  let c := x.clamps + y.clamps
  let o := x.overflows + y.overflows
  match t with
  | .error => none
  | .constT v => some { ty := t, val := some v, clamps := c, overflows := o }
  | .noneT => some { ty := t, val := some [], clamps := c, overflows := o }
  | _ =>
    let k := kRuntime t x.val y.val
    some { k with clamps := c + k.clamps, overflows := o + k.overflows }

/-- one `index::broadcast_shape(a, b)` under the operand kinds -/
def kBroadcast2 (a b : KShape) : Option KOut := kPair a.out b.out

/-- a nest of calls under the operand kinds (`none` = some call of the nest does not compile) -/
def BExpr.keval (env : List KShape) : BExpr → Option KOut
  | .leaf i => (env[i]?).map KShape.out
  | .pair l r => do
      let x ← keval env l
      let y ← keval env r
      kPair x y
  | .tri x y z => do
      let a ← keval env x
      let b ← keval env y
      let c ← keval env z
      let ab ← kPair a b
      kPair ab c

def RType.tag : RType → String
  | .error => "err"
  | .noneT => "none"
  | .constT _ => "ct"
  | .clippedT bs => "cl(" ++ ",".intercalate (bs.map toString) ++ ")"
  | .arr n => s!"a{n}"
  | .clippedArr m n => "ca(" ++ ",".intercalate ((List.replicate n m).map toString) ++ ")"
  | .svec c => s!"sv{c}"
  | .list => "v"


/-- operand from the wire: kind name, values, bounds (clipped only) -/
def KShape.ofKind (kind : String) (vals bounds : List Nat) : Option KShape :=
  match kind with
  | "none" => some ⟨KInfo.none', vals⟩
  | "ct" => some ⟨KInfo.ct vals.length, vals⟩
  | "cl" => some ⟨KInfo.cl bounds, vals⟩
  | "a" => some ⟨KInfo.arr vals.length, vals⟩
  | "f" => some ⟨KInfo.arr vals.length, vals⟩
  | "v" => some ⟨KInfo.dyn, vals⟩
  | "sv" => some ⟨KInfo.sv 8, vals⟩
  | "h" => some ⟨KInfo.sv vals.length, vals⟩
  | _ => none


/-- `impl::shape_broadcast_to(None, bshape)` (broadcast_to.hpp:36-75, the source is the shape of a number) when
    `bshape` is a tuple of clipped integers with bounds `bounds`:
    `result_t = tuple_to_array_t<transform_bounded_array_t<bshape_t>>` = `nmtools_array<E, N>` with `E` the common
    type of the tuple elements; for numbers of equal size `meta::common_type` keeps the right-hand one
    (`l_size > r_size ? left : right`, meta/bits/transform/common_type.hpp:80-86), so `E` is the LAST element's
    clipped type and `at(ret,i) = at(bshape,i)` clamps every extent to the last bound. -/
def sbtNoneClipped (bounds vals : List Nat) : List Nat :=
  match bounds.getLast? with
  | some m => vals.map (fun v => min v m)
  | none => vals

end NmVerif
