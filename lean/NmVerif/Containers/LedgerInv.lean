import NmVerif.Containers.VectorLedger
/-
  NmVerif.Containers.LedgerInv — the set-level ledger invariant of `VectorLedger.LInv`, generic in the container kind:
  every object owns at most one block (`blkOf`), blocks of live objects are distinct, allocated and not freed, nothing
  is freed twice, every block ever handed out is freed or owned by a live object, no event, no dropped block.
  `LInvG.put` re-establishes it after an operation on one slot whose ledger effect is an `Eff`.
-/
namespace NmVerif.Containers

def blkOfO (blkOf : σ → Option Nat) : Option σ → Option Nat
  | some x => blkOf x
  | none => none

structure LInvG (blkOf : σ → Option Nat) (P : σ → Prop) (w : World σ) : Prop where
  objInv : ∀ k x, w.objs k = some x → P x
  owned : ∀ k x p, w.objs k = some x → blkOf x = some p → p < w.led.allocs ∧ p ∉ w.led.freed
  distinct : ∀ k1 k2 x1 x2 p, k1 ≠ k2 → w.objs k1 = some x1 → w.objs k2 = some x2 → blkOf x1 = some p → blkOf x2 ≠ some p
  freedNodup : w.led.freed.Nodup
  freedLt : ∀ b ∈ w.led.freed, b < w.led.allocs
  accounted : ∀ b, b < w.led.allocs → b ∈ w.led.freed ∨ ∃ k x, w.objs k = some x ∧ blkOf x = some b
  noEvents : w.led.events = []
  lostNil : w.led.lost = []

theorem LInvG.empty (blkOf : σ → Option Nat) (P : σ → Prop) : LInvG blkOf P (World.empty : World σ) := by
  constructor <;> simp [World.empty]

/-- `Eff` with the origin of the new block stated only when there is one (so that giving a block up is an effect too) -/
structure EffG (old new : Option Nat) (L L' : Ledger) : Prop where
  mono : L.allocs ≤ L'.allocs
  lost : L'.lost = L.lost
  events : L'.events = L.events
  freed : ∃ fs : List Nat, L'.freed = fs ++ L.freed ∧ fs.Nodup ∧
    (∀ b ∈ fs, (some b = old ∨ (L.allocs ≤ b ∧ b < L'.allocs)) ∧ some b ≠ new) ∧
    (∀ b, (some b = old ∨ (L.allocs ≤ b ∧ b < L'.allocs)) → some b = new ∨ b ∈ fs)
  new_src : ∀ p, new = some p → old = some p ∨ (L.allocs ≤ p ∧ p < L'.allocs)

theorem Eff.toG {old new : Option Nat} {L L' : Ledger} (h : Eff old new L L') : EffG old new L L' :=
  ⟨h.mono, h.lost, h.events, h.freed, by
    intro p hp
    rcases h.new_src with e | ⟨q, e, hq, hq'⟩
    · left; rw [← e]; exact hp
    · right; rw [hp] at e; cases e; exact ⟨hq, hq'⟩⟩

/-- freeing the owned block -/
theorem EffG.free (L : Ledger) (p : Nat) : EffG (some p) none L (L.free p) := by
  refine ⟨Nat.le_refl _, rfl, rfl, ⟨[p], rfl, by simp, ?_, ?_⟩, by intro q hq; cases hq⟩
  · intro b hb; simp at hb; subst hb; exact ⟨Or.inl rfl, by simp⟩
  · intro b hb
    rcases hb with e | e
    · right; cases e; simp
    · simp [Ledger.free] at e; omega

/-- an operation on slot `s` that turns its object (owning `old`) into `x'` (owning `new`) with ledger effect `EffG` -/
theorem LInvG.put {blkOf : σ → Option Nat} {P : σ → Prop} {w : World σ} (hw : LInvG blkOf P w) (s : Nat) (x' : Option σ)
    (L' : Ledger) (hP : ∀ y, x' = some y → P y)
    (geff : EffG (blkOfO blkOf (w.objs s)) (blkOfO blkOf x') w.led L') :
    LInvG blkOf P (w.put s x' L') := by
  obtain ⟨fs, hfs, hnd, hm, he⟩ := geff.freed
  have hmono := geff.mono
  have hold' : ∀ p, blkOfO blkOf (w.objs s) = some p → ∃ x, w.objs s = some x ∧ blkOf x = some p := by
    intro p hp
    cases hx : w.objs s with
    | none => simp [hx, blkOfO] at hp
    | some x => exact ⟨x, rfl, by simpa [hx, blkOfO] using hp⟩
  have hold_lt : ∀ p, blkOfO blkOf (w.objs s) = some p → p < w.led.allocs ∧ p ∉ w.led.freed := by
    intro p hp
    obtain ⟨x, hx, hb⟩ := hold' p hp
    exact hw.owned s x p hx hb
  have hfs_other : ∀ b ∈ fs, ∀ k x, k ≠ s → w.objs k = some x → blkOf x ≠ some b := by
    intro b hb k x hk hx hxb
    rcases (hm b hb).1 with e | e
    · obtain ⟨y, hy, hyb⟩ := hold' b e.symm
      exact hw.distinct k s x y b hk hx hy hxb hyb
    · have := (hw.owned k x b hx hxb).1; omega
  have hnew_other : ∀ p, blkOfO blkOf x' = some p → ∀ k x, k ≠ s → w.objs k = some x → blkOf x ≠ some p := by
    intro p hp k x hk hx hxb
    rcases geff.new_src p hp with e | ⟨hq, hq'⟩
    · obtain ⟨y, hy, hyb⟩ := hold' p e
      exact hw.distinct k s x y p hk hx hy hxb hyb
    · have := (hw.owned k x p hx hxb).1; omega
  have hnewblk : ∀ y, x' = some y → blkOfO blkOf x' = blkOf y := by intro y hy; subst hy; rfl
  constructor
  · intro k x hx
    simp only [World.put] at hx
    by_cases hk : k = s
    · simp [hk] at hx; exact hP x hx
    · simp [hk] at hx; exact hw.objInv k x hx
  · intro k x p hx hp
    simp only [World.put] at hx ⊢
    rw [hfs]
    by_cases hk : k = s
    · simp [hk] at hx
      have hp' : blkOfO blkOf x' = some p := by rw [hnewblk x hx]; exact hp
      have hnf : p ∉ fs := fun hin => (hm p hin).2 hp'.symm
      rcases geff.new_src p hp' with e | ⟨hq, hq'⟩
      · have := hold_lt p e
        exact ⟨by omega, by simp [hnf, this.2]⟩
      · refine ⟨hq', ?_⟩
        simp only [List.mem_append, hnf, false_or]
        intro hin; have := hw.freedLt p hin; omega
    · simp [hk] at hx
      have := hw.owned k x p hx hp
      refine ⟨by omega, ?_⟩
      simp only [List.mem_append, this.2, or_false]
      intro hin; exact hfs_other p hin k x hk hx hp
  · intro k1 k2 x1 x2 p hne h1 h2 hp1 hp2
    simp only [World.put] at h1 h2
    by_cases hk1 : k1 = s
    · have hk2 : k2 ≠ s := by omega
      simp [hk1] at h1; simp [hk2] at h2
      exact hnew_other p (by rw [hnewblk x1 h1]; exact hp1) k2 x2 hk2 h2 hp2
    · simp [hk1] at h1
      by_cases hk2 : k2 = s
      · simp [hk2] at h2
        exact hnew_other p (by rw [hnewblk x2 h2]; exact hp2) k1 x1 hk1 h1 hp1
      · simp [hk2] at h2
        exact hw.distinct k1 k2 x1 x2 p hne h1 h2 hp1 hp2
  · simp only [World.put]
    rw [hfs, List.nodup_append]
    refine ⟨hnd, hw.freedNodup, ?_⟩
    intro a ha b hb hab
    subst hab
    rcases (hm a ha).1 with e | e
    · exact (hold_lt a e.symm).2 hb
    · have := hw.freedLt a hb; omega
  · intro b hb
    simp only [World.put] at hb ⊢
    rw [hfs] at hb
    rcases List.mem_append.mp hb with h | h
    · rcases (hm b h).1 with e | e
      · have := (hold_lt b e.symm).1; omega
      · omega
    · have := hw.freedLt b h; omega
  · intro b hb
    simp only [World.put] at hb ⊢
    rw [hfs]
    have key : (some b = blkOfO blkOf (w.objs s) ∨ (w.led.allocs ≤ b ∧ b < L'.allocs)) →
        b ∈ fs ++ w.led.freed ∨ ∃ k x, (if k = s then x' else w.objs k) = some x ∧ blkOf x = some b := by
      intro h
      rcases he b h with e | e
      · right
        cases hx' : x' with
        | none => rw [hx'] at e; simp [blkOfO] at e
        | some y => rw [hx'] at e; exact ⟨s, y, by simp, e.symm⟩
      · left; exact List.mem_append.mpr (Or.inl e)
    by_cases hlt : b < w.led.allocs
    · rcases hw.accounted b hlt with h | ⟨k, x, hx, hxb⟩
      · left; exact List.mem_append.mpr (Or.inr h)
      · by_cases hk : k = s
        · subst hk
          apply key; left
          rw [hx]; simp [blkOfO, hxb]
        · right; exact ⟨k, x, by simp [hk, hx], hxb⟩
    · exact key (Or.inr ⟨by omega, hb⟩)
  · simp only [World.put]; rw [geff.events]; exact hw.noEvents
  · simp only [World.put]; rw [geff.lost]; exact hw.lostNil

end NmVerif.Containers
