// C12 harness, SIMDe AVX-512 context (512 bit)
#include "nmtools/array/eval/simd/simde_avx512.hpp"
#define C12_CTX  nmtools::array::simd::simde_AVX512
#define C12_BITS 512
// the installed SIMDe has no simde_kxor_mask*/simde_knot_mask* (used by the hardshrink/softshrink/hardswish
// specialisations) and simd_op_t<simde_avx512_t,double>::fmadd calls simde_mm512_fmadd_ps: those do not compile here
#define C12_NO_MASKOPS
#define C12_NO_MATMUL_F64
#include "h_c12_common.hpp"
