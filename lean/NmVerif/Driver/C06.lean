import NmVerif.Proto
import NmVerif.Index.Broadcast
import NmVerif.Index.BroadcastExpr
import NmVerif.Index.BroadcastKinds
namespace NmVerif.Driver.C06
open NmVerif NmVerif.Proto

def fmtBools (l : List Bool) : String := fmtNats (l.map (fun b => if b then 1 else 0))

/-- provenance of a view over an operand filled with `base + flat id` -/
def provData (v : IxView) (base : Int) : Option (List Int) :=
  (allIdx v.dst).mapM (fun d => (v.map d).map (fun i => base + (computeOffset i (strides v.src) : Int)))

/-! ### mixed-kind harness (harness/gen_kinds_c06.py): one answer line of `name=value` clauses.  The model is
kind-blind — the property says the container kind of a shape must not matter. -/

def fmtOptShape : Option Shape → String
  | some r => fmtNats r
  | none => "nothing"

/-- `shape=<list>;data=<row-major elements>` of one view over an operand filled with `base + flat id` -/
def arrStr (v : IxView) (base : Int) : Option String :=
  (provData v base).map (fun l => s!"shape={fmtNats v.dst};data={fmtInts l}")

/-- the operands `order` of `ss` (operand `j` holds `1000 j + flat id`) through `broadcast_arrays` -/
def kViews (ss : List Shape) (order : List Nat) : Option (Option (List (IxView × Int))) := do
  let sel ← order.mapM (fun j => ss[j]?)
  pure ((broadcastArraysViews sel).map (fun vs => vs.zip (order.map (fun (j : Nat) => 1000 * Int.ofNat j))))

def kBarr (ss : List Shape) (order : List Nat) : Option String := do
  match ← kViews ss order with
  | none => pure "nothing"
  | some vbs => do
    let parts ← vbs.mapM (fun (v, b) => arrStr v b)
    pure ("|".intercalate parts)

/-- element-wise sum of the broadcast operands (view::add) -/
def kAdd (ss : List Shape) (order : List Nat) : Option String := do
  match ← kViews ss order with
  | none => pure "nothing"
  | some vbs => do
    let datas ← vbs.mapM (fun (v, b) => provData v b)
    match vbs.head?, datas with
    | some (v0, _), d0 :: ds =>
      let sum := ds.foldl (fun acc d => List.zipWith (· + ·) acc d) d0
      pure s!"shape={fmtNats v0.dst};data={fmtInts sum}"
    | _, _ => none

def kClauses (a : Args) (f : List Shape → List Nat → Option String) : Option String := do
  let ss ← a.natLists "shapes"
  let orders ← a.natLists "orders"
  let names := ((a.get? "names").getD "").splitOn ","
  if names.length ≠ orders.length then none
  let parts ← (names.zip orders).mapM (fun (n, o) => (f ss o).map (fun t => s!" {n}={t}"))
  pure ("ok" ++ String.join parts)

/-- `value@container` + hook events of one clause under the operand kinds (`refused` = does not compile) -/
def fmtK (o : Option KOut) : String :=
  match o with
  | none => "nothing"
  | some k =>
    let v := match k.val with | some r => fmtNats r | none => "nothing"
    let e := (if k.val.isSome && k.overflows > 0 then s!"!ev1:{k.overflows}" else "") ++
             (if k.val.isSome && k.clamps > 0 then s!"!ev2:{k.clamps}" else "")
    s!"{v}@{k.ty.tag}{e}"

/-- the clauses under the operand kinds (request `k6t` of the generated harness) -/
def kexprKinded (a : Args) : Option String := do
  let ss ← a.natLists "shapes"
  let ts ← a.get? "terms"
  let ks := ((a.get? "kinds").getD "").splitOn ","
  let bs ← a.natLists "bounds"
  if ks.length ≠ ss.length ∨ bs.length ≠ ss.length then none
  let env ← (ks.zip (ss.zip bs)).mapM (fun (k, s, b) => KShape.ofKind k s b)
  let parts ← (ts.splitOn ",").mapM (fun (t : String) =>
    match t.splitOn ":" with
    | [n, e] => (BExpr.parse e).map (fun (x : BExpr) => s!" {n}={fmtK (x.keval env)}")
    | _ => none)
  pure ("ok" ++ String.join parts)

def handle : Handler := fun op a =>
  match op with
  | "kexprk" => orBad (kexprKinded a)
  | "kexpr" => orBad do
      let ss ← a.natLists "shapes"
      let ts ← a.get? "terms"
      let parts ← (ts.splitOn ",").mapM (fun t =>
        match t.splitOn ":" with
        | [n, e] => (BExpr.parse e).map (fun x => s!" {n}={fmtOptShape (x.eval ss)}")
        | _ => none)
      pure ("ok" ++ String.join parts)
  | "ksbt" => orBad do
      let src ← a.nats "src"
      let dst ← a.nats "dst"
      match shapeBroadcastTo src dst with
      | none => pure "ok s=nothing"
      | some (sh, free) =>
        -- the None overload stores the target into an array of the LAST clipped type of a clipped target
        let sh' := match a.get? "ksrc", a.get? "kdst", a.nats "bounds" with
          | some "none", some "cl", some bounds => sbtNoneClipped bounds sh
          | _, _, _ => sh
        pure s!"ok s={fmtNats sh'}/{fmtBools free}"
  | "kbto" => orBad do
      let src ← a.nats "src"
      let dst ← a.nats "dst"
      match broadcastToView src dst with
      | none => pure "ok v=nothing"
      | some v => (arrStr v 0).map (fun t => s!"ok v={t}")
  | "kbarr" => orBad (kClauses a kBarr)
  | "kadd" => orBad (kClauses a kAdd)
  | "bshape" => orBad do
      let ss ← a.natLists "shapes"
      if ss.length < 2 then none
      match broadcastShape ss with
      | some r => pure s!"ok {fmtNats r}"
      | none => pure "nothing"
  | "sbt" => orBad do
      let src ← a.nats "src"
      let dst ← a.nats "dst"
      match shapeBroadcastTo src dst with
      | some (sh, free) => pure s!"ok shape={fmtNats sh} free={fmtBools free} origin={fmtNats (originAxes free)}"
      | none => pure "nothing"
  | "free_axes" => orBad do
      let x ← a.nats "a"
      let y ← a.nats "b"
      pure s!"ok {fmtBools (freeAxes x y)}"
  | "bto_ix" => orBad do
      let src ← a.nats "src"
      let dst ← a.nats "dst"
      match broadcastToView src dst with
      | none => pure "nothing"
      | some v =>
        match (allIdx v.dst).mapM v.map with
        | some l => pure s!"ok src={fmtNatLists l}"
        | none => pure "ub"
  | "bto_view" => orBad do
      let src ← a.nats "src"
      let dst ← a.nats "dst"
      match broadcastToView src dst with
      | none => pure "nothing"
      | some v =>
        match provData v 0 with
        | some l => pure s!"ok shape={fmtNats v.dst} data={fmtInts l}"
        | none => pure "ub"
  | "barrays" => orBad do
      let ss ← a.natLists "shapes"
      if ss.length < 2 then none
      match broadcastArraysViews ss with
      | none => pure "nothing"
      | some vs =>
        let parts := (List.range vs.length).zip vs |>.mapM (fun (k, v) =>
          (provData v (1000 * (k : Int))).map (fun l => s!"{fmtNats v.dst}:{fmtInts l}"))
        match parts, vs.head? with
        | some ps, some v0 => pure s!"ok shape={fmtNats v0.dst} data={"|".intercalate ps}"
        | _, _ => pure "ub"
  | _ => none

end NmVerif.Driver.C06
