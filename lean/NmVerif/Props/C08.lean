import NmVerif.Index.Reduce
import NmVerif.Lemmas.Reduce
import NmVerif.Lemmas.ReduceTrace
/-
  C08 — Reductions and accumulations fold exactly the addressed elements, in order.

  MODEL  `NmVerif.Reduce.reduce / reduceElem / reduceReads / accumulate …` (mirror of remove_dims, reduction_slices,
         reduce_t, reduce_t<None>, accumulate_t, reducer_t); `NmVerif.Reduce.diagonal / trace` (Index/ReduceTrace.lean:
         view::trace = view::sum over the last axis of view::diagonal, the diagonal index functions being C16's mirrors)
  SPEC   `specShape`, `addressed`, `specReduceElem`, `accumAddressed`, `specAccumElem` (NumPy)
  Every theorem: any rank, any positive extents, any axis list NumPy accepts (negative entries, any order), keepdims
  either way, initial absent/present, element type and binary `op` ARBITRARY (no commutativity / associativity).
  The `…_any_shape` / `…_pos_axes` theorems drop the positivity of the extents: shapes containing 0 are covered.  A fold
  over no element (a reduced axis of extent 0, an empty diagonal) is the initial value, else the identity the functor
  declares (`reduce_elem_eq_numpy_any_shape`, `reduce_elem_empty_fold`, `sum/prod_elem_eq_any_shape`,
  `trace_eq_sum_diag_any_offset`) — the behaviour of the tree repaired by fixes/C08-trace-empty-diagonal.diff.
  Only property statements (+ non-vacuity examples) live here.
-/
namespace NmVerif.Props.C08
open NmVerif NmVerif.Reduce

variable {α : Type}

/-! ### reduce: shape -/

/-- `index::remove_dims` gives the NumPy result shape: single / several axes, negative axes, any order, keepdims both
    ways, None — and never runs into its UB branches on an axis argument NumPy accepts -/
theorem remove_dims_eq_numpy (s : Shape) (axis : AxisArg) (keep : Bool) (hv : ValidAxes s.length axis) :
    removeDims s axis keep = some (specShape s (axisSet s.length axis) keep) :=
  removeDims_eq_spec s axis keep hv

/-- the reduce view exists and has the NumPy shape -/
theorem reduce_shape_eq_numpy (op : α → α → α) (init : Option α) (a : Arr α) (axis : AxisArg) (keep : Bool)
    (hv : ValidAxes a.shape.length axis) :
    ∃ v, reduce op init a axis keep = some v ∧ v.shape = specShape a.shape (axisSet a.shape.length axis) keep := by
  refine ⟨⟨specShape a.shape (axisSet a.shape.length axis) keep, reduceElem op init a axis keep⟩, ?_, rfl⟩
  simp [reduce, reduceId, reduceElem, removeDims_eq_spec a.shape axis keep hv]

/-! ### reduce: which elements, in which order -/

/-- the view reads, for result index `j`, exactly the source multi-indices whose non-reduced coordinates match `j`
    — each once, in increasing C order (`addressed` is a `filter` of the C-order enumeration `allIdx`) -/
theorem reduce_reads_eq_addressed (s : Shape) (hs : Pos s) (axis : AxisArg) (keep : Bool)
    (hv : ValidAxes s.length axis) (j : Idx) (hj : InShape j (specShape s (axisSet s.length axis) keep)) :
    reduceReads s axis keep j = some (addressed s (axisSet s.length axis) keep j) :=
  reduceReads_eq_addressed s hs axis keep hv j hj

/-- … for EVERY shape, extents 0 included (then nothing is addressed when a reduced extent is 0, and there is no
    result index `j` at all when a kept extent is 0) -/
theorem reduce_reads_eq_addressed_any_shape (s : Shape) (axis : AxisArg) (keep : Bool)
    (hv : ValidAxes s.length axis) (j : Idx) (hj : InShape j (specShape s (axisSet s.length axis) keep)) :
    reduceReads s axis keep j = some (addressed s (axisSet s.length axis) keep j) :=
  reduceReads_eq_addressed_all s axis keep hv j hj

/-- element `j` of the reduce view = NumPy, for every shape whose REDUCED extents are positive (the kept extents may
    be anything, 0 included): left fold `op(acc, x)` from the initial value (or the first element) over the addressed
    elements in increasing C order.  `op` is arbitrary. -/
theorem reduce_elem_eq_foldl_pos_axes (op : α → α → α) (init : Option α) (a : Arr α) (axis : AxisArg) (keep : Bool)
    (hv : ValidAxes a.shape.length axis) (hR : PosAxes a.shape (axisSet a.shape.length axis)) (j : Idx)
    (hj : InShape j (specShape a.shape (axisSet a.shape.length axis) keep)) :
    reduceElem op init a axis keep j = specReduceElem op init a (axisSet a.shape.length axis) keep j :=
  reduceElem_eq_spec_posAxes op init a axis keep hv hR j hj

/-- element `j` of the reduce view = NumPy: left fold `op(acc, x)` from the initial value (or the first element) over
    the addressed elements in increasing C order.  `op` is arbitrary. -/
theorem reduce_elem_eq_foldl (op : α → α → α) (init : Option α) (a : Arr α) (axis : AxisArg) (keep : Bool)
    (hs : Pos a.shape) (hv : ValidAxes a.shape.length axis) (j : Idx)
    (hj : InShape j (specShape a.shape (axisSet a.shape.length axis) keep)) :
    reduceElem op init a axis keep j = specReduceElem op init a (axisSet a.shape.length axis) keep j :=
  reduce_elem_eq_foldl_pos_axes op init a axis keep hv (posAxes_of_pos hs _) j hj

/-- on accepted arguments with positive reduced extents no element of the view is UB: the fold list is never empty -/
theorem reduce_elem_defined_pos_axes (op : α → α → α) (init : Option α) (a : Arr α) (axis : AxisArg) (keep : Bool)
    (hv : ValidAxes a.shape.length axis) (hR : PosAxes a.shape (axisSet a.shape.length axis)) (j : Idx)
    (hj : InShape j (specShape a.shape (axisSet a.shape.length axis) keep)) :
    ∃ v, reduceElem op init a axis keep j = some v := by
  rw [reduce_elem_eq_foldl_pos_axes op init a axis keep hv hR j hj]
  have hne := addressed_ne_nil_posAxes a.shape axis keep hv hR j hj
  simp only [specReduceElem]
  cases init with
  | some i0 => exact ⟨_, rfl⟩
  | none =>
    cases h : addressed a.shape (axisSet a.shape.length axis) keep j with
    | nil => exact absurd h hne
    | cons x xs => exact ⟨_, rfl⟩

/-- on accepted arguments no element of the view is UB: the fold list is never empty -/
theorem reduce_elem_defined (op : α → α → α) (init : Option α) (a : Arr α) (axis : AxisArg) (keep : Bool)
    (hs : Pos a.shape) (hv : ValidAxes a.shape.length axis) (j : Idx)
    (hj : InShape j (specShape a.shape (axisSet a.shape.length axis) keep)) :
    ∃ v, reduceElem op init a axis keep j = some v :=
  reduce_elem_defined_pos_axes op init a axis keep hv (posAxes_of_pos hs _) j hj

/-- EVERY shape — extents 0 included, reduced or kept — and a functor with or without identity (`ident` = what
    `op_type::identity()` returns, `none` if the functor declares none): element `j` of the view = NumPy's
    `ufunc.reduce`: the left fold of the addressed elements in increasing C order; when there is none (a reduced axis of
    extent 0) the initial value, else the identity, else NumPy's error / the code's assert (`none`). -/
theorem reduce_elem_eq_numpy_any_shape (ident : Option α) (op : α → α → α) (init : Option α) (a : Arr α) (axis : AxisArg)
    (keep : Bool) (hv : ValidAxes a.shape.length axis) (j : Idx)
    (hj : InShape j (specShape a.shape (axisSet a.shape.length axis) keep)) :
    reduceElemId ident op init a axis keep j = specReduceElemId ident op init a (axisSet a.shape.length axis) keep j :=
  reduceElemId_eq_spec ident op init a axis keep hv j hj

/-- a fold over no element (some reduced axis has extent 0): the initial value, else the identity of the functor
    (repaired defect `reduce.empty-fold`: the code used to unwrap the Nothing that `view::flatten` gives for a zero-size
    array) -/
theorem reduce_elem_empty_fold (ident : Option α) (op : α → α → α) (init : Option α) (a : Arr α) (axis : AxisArg)
    (keep : Bool) (hv : ValidAxes a.shape.length axis) (hR : ¬ PosAxes a.shape (axisSet a.shape.length axis)) (j : Idx)
    (hj : InShape j (specShape a.shape (axisSet a.shape.length axis) keep)) :
    reduceElemId ident op init a axis keep j = (match init with | some i => some i | none => ident) := by
  have h0 := addressed_eq_nil_of_zero_axis a.shape (axisSet a.shape.length axis) keep j hR
  rw [reduceElemId_eq_spec ident op init a axis keep hv j hj, specReduceElemId, h0]
  rfl

/-- a KEPT axis of extent 0: the result has the NumPy shape (`remove_dims_eq_numpy`, no positivity needed) and no
    element at all — nothing is evaluated -/
theorem reduce_zero_kept_extent_empty (s : Shape) (R : List Nat) (keep : Bool) (k : Nat) (hk : k ∉ R)
    (h0 : s[k]? = some 0) : allIdx (specShape s R keep) = [] := by
  apply allIdx_eq_nil_of_not_pos
  intro hp
  have hmem : (0, k) ∈ s.zipIdx := by
    rw [List.mem_zipIdx_iff_getElem?]; simpa using h0
  have : 0 ∈ specShape s R keep := by
    unfold specShape
    cases keep with
    | true =>
      simp only [if_true, List.mem_map]
      exact ⟨(0, k), hmem, by simp [hk]⟩
    | false =>
      simp only [Bool.false_eq_true, if_false, List.mem_map, List.mem_filter]
      exact ⟨(0, k), ⟨hmem, by simp [hk]⟩, rfl⟩
  exact absurd (hp 0 this) (by omega)

/-- the order in which the axes are listed (and how often the list is permuted) is irrelevant: same view.
    Holds for every axis list, valid or not. -/
theorem reduce_axes_order_irrelevant (op : α → α → α) (init : Option α) (a : Arr α) (l l' : List Int)
    (keep : Bool) (h : l.Perm l') :
    reduce op init a (some l) keep = reduce op init a (some l') keep := by
  have hval : (∀ x ∈ l, ValidAxis a.shape.length x) ↔ (∀ x ∈ l', ValidAxis a.shape.length x) :=
    ⟨fun hx y hy => hx y (h.mem_iff.2 hy), fun hx y hy => hx y (h.mem_iff.1 hy)⟩
  have hin : inAxis (some (l.map (normAxis a.shape.length))) = inAxis (some (l'.map (normAxis a.shape.length))) := by
    funext k
    rw [inAxis_some, inAxis_some]
    congr 1
    exact propext (h.map _).mem_iff
  have hlen : l.length = l'.length := h.length_eq
  by_cases hv : ∀ x ∈ l, ValidAxis a.shape.length x
  · have hv' := hval.1 hv
    have hel : reduceElem op init a (some l) keep = reduceElem op init a (some l') keep := by
      funext d
      simp only [reduceElem, reduceElemId, reductionSlices, unwrapAxes, normalizeAxes_eq, if_pos hv, if_pos hv', Option.map_some, hin]
    simp only [reduce, removeDims, unwrapAxes, normalizeAxes_eq, if_pos hv, if_pos hv', Option.map_some, hin,
      List.length_map, hlen, hel]
  · have hv' : ¬ ∀ x ∈ l', ValidAxis a.shape.length x := fun hx => hv (hval.2 hx)
    simp [reduce, reduceId, removeDims, unwrapAxes, normalizeAxes_eq, hv, hv']

/-- AN AXIS NAMED SEVERAL TIMES (NumPy refuses the argument; the code does not look): with keepdims the view depends
    only on the SET of normalised axes — repetitions, order and sign spelling are all irrelevant.  (Without keepdims
    `remove_dims` sizes its result from the length of the list and writes past it: UB, `reduce … = none` in the model.) -/
theorem reduce_keepdims_depends_on_axis_set (op : α → α → α) (init : Option α) (a : Arr α) (l l' : List Int)
    (hl : ∀ x ∈ l, ValidAxis a.shape.length x) (hl' : ∀ x ∈ l', ValidAxis a.shape.length x)
    (h : ∀ k, k ∈ l.map (normAxis a.shape.length) ↔ k ∈ l'.map (normAxis a.shape.length)) :
    reduce op init a (some l) true = reduce op init a (some l') true := by
  have hin : inAxis (some (l.map (normAxis a.shape.length))) = inAxis (some (l'.map (normAxis a.shape.length))) := by
    funext k
    rw [inAxis_some, inAxis_some]
    congr 1
    exact propext (h k)
  have hel : reduceElem op init a (some l) true = reduceElem op init a (some l') true := by
    funext d
    simp only [reduceElem, reduceElemId, reductionSlices, unwrapAxes, normalizeAxes_eq, if_pos hl, if_pos hl', Option.map_some, hin]
  simp only [reduce, removeDims, unwrapAxes, normalizeAxes_eq, if_pos hl, if_pos hl', Option.map_some, hin, hel, if_true]

/-- … and then it is NumPy's result for the de-duplicated list -/
theorem reduce_repeated_axes_keepdims (op : α → α → α) (init : Option α) (a : Arr α) (l : List Int)
    (hs : Pos a.shape) (hl : ∀ x ∈ l, ValidAxis a.shape.length x) (j : Idx)
    (hj : InShape j (specShape a.shape (l.map (normAxis a.shape.length)) true)) :
    (reduce op init a (some l) true).map (fun v => (v.shape, v.get j)) =
      some (specShape a.shape (l.map (normAxis a.shape.length)) true,
            specReduceElem op init a (l.map (normAxis a.shape.length)) true j) := by
  -- a duplicate-free list naming the same axes
  let R := dedupNat (l.map (normAxis a.shape.length))
  let l0 : List Int := R.map Int.ofNat
  have hRlt : ∀ k ∈ R, k < a.shape.length := by
    intro k hk
    have : k ∈ l.map (normAxis a.shape.length) := (mem_dedupNat k _).1 hk
    simp only [List.mem_map] at this
    obtain ⟨x, hx, rfl⟩ := this
    exact normAxis_lt (hl x hx)
  have hl0 : ∀ x ∈ l0, ValidAxis a.shape.length x := by
    intro x hx
    simp only [l0, List.mem_map] at hx
    obtain ⟨k, hk, rfl⟩ := hx
    have := hRlt k hk
    simp only [ValidAxis, Int.ofNat_eq_natCast]; omega
  have hnorm : l0.map (normAxis a.shape.length) = R := by
    simp only [l0, List.map_map]
    conv => rhs; rw [← List.map_id R]
    apply List.map_congr_left
    intro k hk
    exact normAxis_ofNat (hRlt k hk)
  have hset : ∀ k, k ∈ l.map (normAxis a.shape.length) ↔ k ∈ l0.map (normAxis a.shape.length) := by
    intro k; rw [hnorm]; exact (mem_dedupNat k _).symm
  have hv0 : ValidAxes a.shape.length (some l0) := ⟨hl0, by rw [hnorm]; exact nodup_dedupNat _⟩
  -- the spec only looks at membership
  have hshape : specShape a.shape (l.map (normAxis a.shape.length)) true = specShape a.shape R true := by
    simp only [specShape, if_true]
    apply List.map_congr_left
    intro q _
    have := hset q.2; rw [hnorm] at this
    simp only [this]
  have hproj : ∀ i, proj (l.map (normAxis a.shape.length)) true i = proj R true i := by
    intro i
    simp only [proj, if_true]
    apply List.map_congr_left
    intro q _
    have := hset q.2; rw [hnorm] at this
    simp only [this]
  have hspec : specReduceElem op init a (l.map (normAxis a.shape.length)) true j = specReduceElem op init a R true j := by
    simp only [specReduceElem, addressed, hproj]
  rw [reduce_keepdims_depends_on_axis_set op init a l l0 hl hl0 hset, hshape, hspec]
  have hj0 : InShape j (specShape a.shape (axisSet a.shape.length (some l0)) true) := by
    simp only [axisSet, hnorm]; rw [← hshape]; exact hj
  have := reduce_elem_eq_foldl op init a (some l0) true hs hv0 j hj0
  simp only [axisSet, hnorm] at this
  simp only [reduce, removeDims_eq_spec a.shape (some l0) true hv0, Option.map_some, axisSet, hnorm, this]

/-- every source index the view reads lies inside the source shape -/
theorem reduce_inBounds (s : Shape) (hs : Pos s) (axis : AxisArg) (keep : Bool)
    (hv : ValidAxes s.length axis) (j : Idx) (hj : InShape j (specShape s (axisSet s.length axis) keep)) :
    ∃ r, reduceReads s axis keep j = some r ∧ ∀ i ∈ r, InShape i s := by
  refine ⟨_, reduceReads_eq_addressed s hs axis keep hv j hj, ?_⟩
  intro i hi
  exact mem_allIdx_inShape (List.mem_filter.1 hi).1

/-- … for every shape, extents 0 included -/
theorem reduce_inBounds_any_shape (s : Shape) (axis : AxisArg) (keep : Bool)
    (hv : ValidAxes s.length axis) (j : Idx) (hj : InShape j (specShape s (axisSet s.length axis) keep)) :
    ∃ r, reduceReads s axis keep j = some r ∧ ∀ i ∈ r, InShape i s := by
  refine ⟨_, reduceReads_eq_addressed_all s axis keep hv j hj, ?_⟩
  intro i hi
  exact mem_allIdx_inShape (List.mem_filter.1 hi).1

/-! ### named reductions as instances -/

/-- `view::sum` = `reduce(add_t)`: NumPy `sum` element -/
theorem sum_elem_eq [Add α] [OfNat α 0] (init : Option α) (a : Arr α) (axis : AxisArg) (keep : Bool)
    (hs : Pos a.shape) (hv : ValidAxes a.shape.length axis) (j : Idx)
    (hj : InShape j (specShape a.shape (axisSet a.shape.length axis) keep)) :
    (sum init a axis keep).map (fun v => (v.shape, v.get j)) =
      some (specShape a.shape (axisSet a.shape.length axis) keep,
            foldFirst (· + ·) init ((addressed a.shape (axisSet a.shape.length axis) keep j).map a.get)) := by
  simp only [sum, reduceId, removeDims_eq_spec a.shape axis keep hv, Option.map_some]
  rw [reduceElemId_eq_spec_posAxes _ _ init a axis keep hv (posAxes_of_pos hs _) j hj]; rfl

/-- `view::prod` = `reduce(multiply_t)` -/
theorem prod_elem_eq [Mul α] [OfNat α 1] (init : Option α) (a : Arr α) (axis : AxisArg) (keep : Bool)
    (hs : Pos a.shape) (hv : ValidAxes a.shape.length axis) (j : Idx)
    (hj : InShape j (specShape a.shape (axisSet a.shape.length axis) keep)) :
    (prodReduce init a axis keep).map (fun v => (v.shape, v.get j)) =
      some (specShape a.shape (axisSet a.shape.length axis) keep,
            foldFirst (· * ·) init ((addressed a.shape (axisSet a.shape.length axis) keep j).map a.get)) := by
  simp only [prodReduce, reduceId, removeDims_eq_spec a.shape axis keep hv, Option.map_some]
  rw [reduceElemId_eq_spec_posAxes _ _ init a axis keep hv (posAxes_of_pos hs _) j hj]; rfl

/-- `view::amax` = `reduce(maximum_t)` with `maximum(t,u) = t > u ? t : u` -/
theorem amax_elem_eq [LT α] [DecidableRel (α := α) (· < ·)] (init : Option α) (a : Arr α) (axis : AxisArg) (keep : Bool)
    (hs : Pos a.shape) (hv : ValidAxes a.shape.length axis) (j : Idx)
    (hj : InShape j (specShape a.shape (axisSet a.shape.length axis) keep)) :
    (amax init a axis keep).map (fun v => (v.shape, v.get j)) =
      some (specShape a.shape (axisSet a.shape.length axis) keep,
            foldFirst maximum init ((addressed a.shape (axisSet a.shape.length axis) keep j).map a.get)) := by
  simp only [amax, reduce, removeDims_eq_spec a.shape axis keep hv, Option.map_some]
  rw [reduce_elem_eq_foldl _ init a axis keep hs hv j hj]; rfl

/-- `view::amin` = `reduce(minimum_t)` with `minimum(t,u) = t < u ? t : u` -/
theorem amin_elem_eq [LT α] [DecidableRel (α := α) (· < ·)] (init : Option α) (a : Arr α) (axis : AxisArg) (keep : Bool)
    (hs : Pos a.shape) (hv : ValidAxes a.shape.length axis) (j : Idx)
    (hj : InShape j (specShape a.shape (axisSet a.shape.length axis) keep)) :
    (amin init a axis keep).map (fun v => (v.shape, v.get j)) =
      some (specShape a.shape (axisSet a.shape.length axis) keep,
            foldFirst minimum init ((addressed a.shape (axisSet a.shape.length axis) keep j).map a.get)) := by
  simp only [amin, reduce, removeDims_eq_spec a.shape axis keep hv, Option.map_some]
  rw [reduce_elem_eq_foldl _ init a axis keep hs hv j hj]; rfl

/-! ### compositions: plumbing over abstract element operations -/

/-- `view::mean` = `divide(reduce_add(a, normalised axis, …), mean_divisor)`: each element is the NumPy sum of the
    addressed elements divided by *their number* (the divisor the code computes from the shape is the count of
    folded elements); `add`, `divn` are abstract (promotion to float and the division itself are C07's) -/
theorem mean_eq_sum_div_count (add : α → α → α) (divn : α → Nat → α) (a : Arr α) (axis : AxisArg) (keep : Bool)
    (hs : Pos a.shape) (hv : ValidAxes a.shape.length axis) :
    ∃ v, mean add divn a axis keep = some v ∧ v.shape = specShape a.shape (axisSet a.shape.length axis) keep ∧
      ∀ j, InShape j v.shape →
        v.get j = (specReduceElem add none a (axisSet a.shape.length axis) keep j).map
                    (fun x => divn x (addressed a.shape (axisSet a.shape.length axis) keep j).length) := by
  cases axis with
  | none =>
    refine ⟨⟨specShape a.shape (axisSet a.shape.length none) keep,
      fun j => (reduceElem add none a none keep j).map (fun x => divn x (prod a.shape))⟩, ?_, rfl, ?_⟩
    · simp [mean, unwrapAxes, meanDivisor, reduce, reduceId, reduceElem, removeDims_eq_spec a.shape none keep hv]
    · intro j hj
      have hr := reduceReads_eq_addressed a.shape hs none keep hv j hj
      have hlen : (addressed a.shape (axisSet a.shape.length none) keep j).length = prod a.shape := by
        simp only [reduceReads, Option.some.injEq] at hr
        rw [← hr]; simp
      simp only [reduce_elem_eq_foldl add none a none keep hs hv j hj, hlen]
  | some l =>
    obtain ⟨hv', hset⟩ := validAxes_renorm a.shape.length l hv
    have hval := hv.1
    have hlt : ∀ k ∈ l.map (normAxis a.shape.length), k < a.shape.length := by
      intro k hk
      simp only [List.mem_map] at hk
      obtain ⟨b, hb, rfl⟩ := hk
      exact normAxis_lt (hval b hb)
    refine ⟨⟨specShape a.shape (axisSet a.shape.length (some l)) keep,
      fun j => (reduceElem add none a (some ((l.map (normAxis a.shape.length)).map Int.ofNat)) keep j).map
        (fun x => divn x (prodSel (fun k => decide (k ∈ l.map (normAxis a.shape.length))) 0 a.shape))⟩, ?_, rfl, ?_⟩
    · simp only [mean, unwrapAxes, normalizeAxes_eq, if_pos hval, Option.map_some,
        meanDivisor_eq_prodSel a.shape _ hv.2 hlt, reduce, reduceId, reduceElem, removeDims_eq_spec a.shape _ keep hv', hset]
    · intro j hj
      have hj' : InShape j (specShape a.shape (axisSet a.shape.length
          (some ((l.map (normAxis a.shape.length)).map Int.ofNat))) keep) := by rw [hset]; exact hj
      simp only [reduce_elem_eq_foldl add none a _ keep hs hv' j hj', hset,
        addressed_length a.shape hs l keep hv j hj]
      rfl

/-- `view::vector_norm` = `power(sum(power(fabs(a), ord), axis, …), 1/ord)`: the fold runs over the addressed elements
    of the element-wise pre-processed array, then the post-processing is applied per result element -/
theorem vector_norm_eq (add : α → α → α) (pre post : α → α) (a : Arr α) (axis : AxisArg) (keep : Bool)
    (hs : Pos a.shape) (hv : ValidAxes a.shape.length axis) :
    ∃ v, vectorNorm add pre post a axis keep = some v ∧
      v.shape = specShape a.shape (axisSet a.shape.length axis) keep ∧
      ∀ j, InShape j v.shape →
        v.get j = (foldFirst add none ((addressed a.shape (axisSet a.shape.length axis) keep j).map
                    (fun i => pre (a.get i)))).map post := by
  refine ⟨⟨specShape a.shape (axisSet a.shape.length axis) keep,
    fun j => (reduceElem add none (a.map pre) axis keep j).map post⟩, ?_, rfl, ?_⟩
  · have := removeDims_eq_spec a.shape axis keep hv
    simp [vectorNorm, reduce, reduceId, reduceElem, Arr.map, this]
  · intro j hj
    have h := reduce_elem_eq_foldl add none (a.map pre) axis keep hs hv j hj
    show (reduceElem add none (a.map pre) axis keep j).map post = _
    rw [h]
    simp [specReduceElem, Arr.map, List.map_map, Function.comp_def]

/-- `view::var` = `divide(sum(square(fabs(input - mean(input, axis, keepdims=True))), axis, keepdims), N - ddof)`:
    each element is NumPy's variance of exactly the addressed elements — their squared deviations from *their own*
    mean, summed in C order, divided by `count - ddof`.  The broadcast of the keepdims mean against the input is the
    index map C06 proves (`proj R true`); element operations abstract. -/
theorem var_eq_mean_sq_dev (add sub : α → α → α) (sqabs : α → α) (divn : α → Nat → α) (a : Arr α)
    (axis : AxisArg) (ddof : Nat) (keep : Bool) (hs : Pos a.shape) (hv : ValidAxes a.shape.length axis) :
    ∃ v, var add sub sqabs divn a axis ddof keep = some v ∧
      v.shape = specShape a.shape (axisSet a.shape.length axis) keep ∧
      ∀ j, InShape j v.shape →
        v.get j = specVarElem add sub sqabs divn a (axisSet a.shape.length axis) keep ddof j :=
  var_spec add sub sqabs divn a axis ddof keep hs hv

/-- `view::stddev` = `sqrt(var(…))`, element-wise -/
theorem stddev_eq_sqrt_var (add sub : α → α → α) (sqabs sqrt : α → α) (divn : α → Nat → α) (a : Arr α)
    (axis : AxisArg) (ddof : Nat) (keep : Bool) (hs : Pos a.shape) (hv : ValidAxes a.shape.length axis) :
    ∃ v, stddev add sub sqabs sqrt divn a axis ddof keep = some v ∧
      v.shape = specShape a.shape (axisSet a.shape.length axis) keep ∧
      ∀ j, InShape j v.shape →
        v.get j = (specVarElem add sub sqabs divn a (axisSet a.shape.length axis) keep ddof j).map sqrt := by
  obtain ⟨v, h1, h2, h3⟩ := var_spec add sub sqabs divn a axis ddof keep hs hv
  refine ⟨⟨v.shape, fun j => (v.get j).map sqrt⟩, by simp [stddev, h1], h2, ?_⟩
  intro j hj
  show (v.get j).map sqrt = _
  rw [h3 j hj]

/-! ### the compositions on shapes containing 0: only the reduced extents need be positive -/

/-- `view::sum` / `view::prod` on every shape whose reduced extents are positive -/
theorem sum_elem_eq_pos_axes [Add α] [OfNat α 0] (init : Option α) (a : Arr α) (axis : AxisArg) (keep : Bool)
    (hv : ValidAxes a.shape.length axis) (hR : PosAxes a.shape (axisSet a.shape.length axis)) (j : Idx)
    (hj : InShape j (specShape a.shape (axisSet a.shape.length axis) keep)) :
    (sum init a axis keep).map (fun v => (v.shape, v.get j)) =
      some (specShape a.shape (axisSet a.shape.length axis) keep,
            foldFirst (· + ·) init ((addressed a.shape (axisSet a.shape.length axis) keep j).map a.get)) := by
  simp only [sum, reduceId, removeDims_eq_spec a.shape axis keep hv, Option.map_some]
  rw [reduceElemId_eq_spec_posAxes _ _ init a axis keep hv hR j hj]; rfl

theorem prod_elem_eq_pos_axes [Mul α] [OfNat α 1] (init : Option α) (a : Arr α) (axis : AxisArg) (keep : Bool)
    (hv : ValidAxes a.shape.length axis) (hR : PosAxes a.shape (axisSet a.shape.length axis)) (j : Idx)
    (hj : InShape j (specShape a.shape (axisSet a.shape.length axis) keep)) :
    (prodReduce init a axis keep).map (fun v => (v.shape, v.get j)) =
      some (specShape a.shape (axisSet a.shape.length axis) keep,
            foldFirst (· * ·) init ((addressed a.shape (axisSet a.shape.length axis) keep j).map a.get)) := by
  simp only [prodReduce, reduceId, removeDims_eq_spec a.shape axis keep hv, Option.map_some]
  rw [reduceElemId_eq_spec_posAxes _ _ init a axis keep hv hR j hj]; rfl

/-- `view::sum` on EVERY shape: over no element it is the initial value, else 0 (`np.sum`) -/
theorem sum_elem_eq_any_shape [Add α] [OfNat α 0] (init : Option α) (a : Arr α) (axis : AxisArg) (keep : Bool)
    (hv : ValidAxes a.shape.length axis) (j : Idx)
    (hj : InShape j (specShape a.shape (axisSet a.shape.length axis) keep)) :
    (sum init a axis keep).map (fun v => (v.shape, v.get j)) =
      some (specShape a.shape (axisSet a.shape.length axis) keep,
            foldNumpy (some 0) (· + ·) init ((addressed a.shape (axisSet a.shape.length axis) keep j).map a.get)) := by
  simp only [sum, reduceId, removeDims_eq_spec a.shape axis keep hv, Option.map_some]
  rw [reduceElemId_eq_spec _ _ init a axis keep hv j hj]; rfl

/-- `view::prod` on EVERY shape: over no element it is the initial value, else 1 (`np.prod`) -/
theorem prod_elem_eq_any_shape [Mul α] [OfNat α 1] (init : Option α) (a : Arr α) (axis : AxisArg) (keep : Bool)
    (hv : ValidAxes a.shape.length axis) (j : Idx)
    (hj : InShape j (specShape a.shape (axisSet a.shape.length axis) keep)) :
    (prodReduce init a axis keep).map (fun v => (v.shape, v.get j)) =
      some (specShape a.shape (axisSet a.shape.length axis) keep,
            foldNumpy (some 1) (· * ·) init ((addressed a.shape (axisSet a.shape.length axis) keep j).map a.get)) := by
  simp only [prodReduce, reduceId, removeDims_eq_spec a.shape axis keep hv, Option.map_some]
  rw [reduceElemId_eq_spec _ _ init a axis keep hv j hj]; rfl

/-- `mean_eq_sum_div_count` with the positivity asked of the reduced extents only -/
theorem mean_eq_sum_div_count_pos_axes (add : α → α → α) (divn : α → Nat → α) (a : Arr α) (axis : AxisArg) (keep : Bool)
    (hv : ValidAxes a.shape.length axis) (hR : PosAxes a.shape (axisSet a.shape.length axis)) :
    ∃ v, mean add divn a axis keep = some v ∧ v.shape = specShape a.shape (axisSet a.shape.length axis) keep ∧
      ∀ j, InShape j v.shape →
        v.get j = (specReduceElem add none a (axisSet a.shape.length axis) keep j).map
                    (fun x => divn x (addressed a.shape (axisSet a.shape.length axis) keep j).length) :=
  mean_spec_posAxes add divn a axis keep hv hR

/-- `var_eq_mean_sq_dev` with the positivity asked of the reduced extents only -/
theorem var_eq_mean_sq_dev_pos_axes (add sub : α → α → α) (sqabs : α → α) (divn : α → Nat → α) (a : Arr α)
    (axis : AxisArg) (ddof : Nat) (keep : Bool) (hv : ValidAxes a.shape.length axis)
    (hR : PosAxes a.shape (axisSet a.shape.length axis)) :
    ∃ v, var add sub sqabs divn a axis ddof keep = some v ∧
      v.shape = specShape a.shape (axisSet a.shape.length axis) keep ∧
      ∀ j, InShape j v.shape →
        v.get j = specVarElem add sub sqabs divn a (axisSet a.shape.length axis) keep ddof j :=
  var_spec_posAxes add sub sqabs divn a axis ddof keep hv hR

/-- `stddev_eq_sqrt_var` with the positivity asked of the reduced extents only -/
theorem stddev_eq_sqrt_var_pos_axes (add sub : α → α → α) (sqabs sqrt : α → α) (divn : α → Nat → α) (a : Arr α)
    (axis : AxisArg) (ddof : Nat) (keep : Bool) (hv : ValidAxes a.shape.length axis)
    (hR : PosAxes a.shape (axisSet a.shape.length axis)) :
    ∃ v, stddev add sub sqabs sqrt divn a axis ddof keep = some v ∧
      v.shape = specShape a.shape (axisSet a.shape.length axis) keep ∧
      ∀ j, InShape j v.shape →
        v.get j = (specVarElem add sub sqabs divn a (axisSet a.shape.length axis) keep ddof j).map sqrt := by
  obtain ⟨v, h1, h2, h3⟩ := var_spec_posAxes add sub sqabs divn a axis ddof keep hv hR
  refine ⟨⟨v.shape, fun j => (v.get j).map sqrt⟩, by simp [stddev, h1], h2, ?_⟩
  intro j hj
  show (v.get j).map sqrt = _
  rw [h3 j hj]

/-- `vector_norm_eq` with the positivity asked of the reduced extents only -/
theorem vector_norm_eq_pos_axes (add : α → α → α) (pre post : α → α) (a : Arr α) (axis : AxisArg) (keep : Bool)
    (hv : ValidAxes a.shape.length axis) (hR : PosAxes a.shape (axisSet a.shape.length axis)) :
    ∃ v, vectorNorm add pre post a axis keep = some v ∧
      v.shape = specShape a.shape (axisSet a.shape.length axis) keep ∧
      ∀ j, InShape j v.shape →
        v.get j = (foldFirst add none ((addressed a.shape (axisSet a.shape.length axis) keep j).map
                    (fun i => pre (a.get i)))).map post := by
  refine ⟨⟨specShape a.shape (axisSet a.shape.length axis) keep,
    fun j => (reduceElem add none (a.map pre) axis keep j).map post⟩, ?_, rfl, ?_⟩
  · have := removeDims_eq_spec a.shape axis keep hv
    simp [vectorNorm, reduce, reduceId, reduceElem, Arr.map, this]
  · intro j hj
    have h := reduce_elem_eq_foldl_pos_axes add none (a.map pre) axis keep hv hR j hj
    show (reduceElem add none (a.map pre) axis keep j).map post = _
    rw [h]
    simp [specReduceElem, Arr.map, List.map_map, Function.comp_def]

/-! ### trace -/

/-- `view::trace(a, offset, axis1, axis2)` = `sum(diagonal(a, offset, axis1, axis2), -1)` agrees with `np.trace` for
    every rank ≥ 2, every pair of distinct accepted axes (negative ones counted from the end, either order), every
    offset whose diagonal is non-empty (`max(-offset,0) < n1`, `max(offset,0) < n2`; the other extents arbitrary): the
    result has the other extents in order, and element `j` is the left fold, in increasing `i`, of exactly the
    diagonal elements `a[j; axis1 ↦ i + max(-offset,0), axis2 ↦ i + max(offset,0)]`, `i < min(n1 - max(-offset,0),
    n2 - max(offset,0))` (`Linalg.specTrace`, the index list C16 uses) — never empty, every read inside the source.
    `add` is arbitrary. -/
theorem trace_eq_sum_diag (add : α → α → α) (zero : Option α) (a : Arr α) (off axis1 axis2 : Int) (n1 n2 : Nat)
    (h1 : ValidAxis a.shape.length axis1) (h2 : ValidAxis a.shape.length axis2)
    (h12 : normAxis a.shape.length axis1 ≠ normAxis a.shape.length axis2)
    (hn1 : a.shape[normAxis a.shape.length axis1]? = some n1)
    (hn2 : a.shape[normAxis a.shape.length axis2]? = some n2)
    (hlo : (-off).toNat < n1) (hhi : off.toNat < n2) :
    ∃ v sp, trace add zero a off axis1 axis2 = some v ∧
      Linalg.specTrace a.shape off (normAxis a.shape.length axis1) (normAxis a.shape.length axis2) = some sp ∧
      v.shape = sp.shape ∧
      ∀ j, InShape j sp.shape →
        v.get j = foldFirst add none ((sp.get j).map a.get) ∧ sp.get j ≠ [] ∧ ∀ i ∈ sp.get j, InShape i a.shape :=
  trace_spec add zero a off axis1 axis2 n1 n2 h1 h2 h12 hn1 hn2 hlo hhi

/-- … and for EVERY offset: an empty diagonal (offset beyond the extent, an extent 0) gives `zero`, the identity of the
    sum (`np.trace` = 0; repaired defect `trace.empty-diagonal`) -/
theorem trace_eq_sum_diag_any_offset (add : α → α → α) (zero : Option α) (a : Arr α) (off axis1 axis2 : Int) (n1 n2 : Nat)
    (h1 : ValidAxis a.shape.length axis1) (h2 : ValidAxis a.shape.length axis2)
    (h12 : normAxis a.shape.length axis1 ≠ normAxis a.shape.length axis2)
    (hn1 : a.shape[normAxis a.shape.length axis1]? = some n1)
    (hn2 : a.shape[normAxis a.shape.length axis2]? = some n2) :
    ∃ v sp, trace add zero a off axis1 axis2 = some v ∧
      Linalg.specTrace a.shape off (normAxis a.shape.length axis1) (normAxis a.shape.length axis2) = some sp ∧
      v.shape = sp.shape ∧
      ∀ j, InShape j sp.shape →
        v.get j = foldNumpy zero add none ((sp.get j).map a.get) ∧ ∀ i ∈ sp.get j, InShape i a.shape :=
  trace_spec_all add zero a off axis1 axis2 n1 n2 h1 h2 h12 hn1 hn2

/-! ### accumulate -/

/-- accumulate keeps the source shape -/
theorem accumulate_shape (op : α → α → α) (a : Arr α) (axis : Int) : (accumulate op a axis).shape = a.shape := rfl

/-- for every axis NumPy accepts (`-dim ≤ axis < dim`, negative = counted from the last axis) the view reads `d` with
    coordinate `ax = axis mod dim` running over `0..d[ax]`, in that order -/
theorem accumulate_reads_eq (s : Shape) (axis : Int) (hv : ValidAxis s.length axis) (d : Idx) (hd : InShape d s) :
    accumulateReads s axis d = accumAddressed (normAxis s.length axis) d :=
  accumulateReads_eq s axis hv d hd.length_eq

/-- element `d` of the accumulate view = NumPy `op.accumulate(a, axis)`: the fold of `a[…, 0..d[ax], …]`,
    positive and negative axes alike -/
theorem accumulate_eq_scan (op : α → α → α) (a : Arr α) (axis : Int) (hv : ValidAxis a.shape.length axis) (d : Idx)
    (hd : InShape d a.shape) :
    accumulateElem op a axis d = specAccumElem op a (normAxis a.shape.length axis) d := by
  rw [accumulateElem_eq_reads, accumulateReads_eq a.shape axis hv d hd.length_eq]
  simp only [specAccumElem, accumAddressed]
  cases d[normAxis a.shape.length axis]? with
  | none => rfl
  | some m =>
    simp only [Option.bind_some]
    rw [foldNumpy_of_ne_nil]
    simp [List.range_succ]

/-- … which is the *running* fold along the axis: first element copied, each next one `op(previous result, source)` -/
theorem accumulate_running (op : α → α → α) (a : Arr α) (ax : Nat) (d : Idx) (hax : ax < d.length) :
    specAccumElem op a ax (d.set ax 0) = some (a.get (d.set ax 0)) ∧
    ∀ m, specAccumElem op a ax (d.set ax (m+1)) =
      (specAccumElem op a ax (d.set ax m)).map (fun acc => op acc (a.get (d.set ax (m+1)))) := by
  constructor
  · simp [specAccumElem, accumAddressed, hax, foldFirst]
  · intro m
    simp only [specAccumElem, accumAddressed, List.getElem?_set_self hax, List.set_set]
    rw [List.range_succ, List.map_append, List.map_append]
    simp only [List.map_cons, List.map_nil]
    rw [List.range_succ_eq_map, List.map_cons, List.map_cons]
    simp [foldFirst, List.foldl_append]

/-- every source index the accumulate view reads lies inside the source shape -/
theorem accumulate_inBounds (s : Shape) (axis : Int) (hv : ValidAxis s.length axis) (d : Idx) (hd : InShape d s) :
    ∃ r, accumulateReads s axis d = some r ∧ ∀ i ∈ r, InShape i s := by
  rw [accumulateReads_eq s axis hv d hd.length_eq]
  have hlen := hd.length_eq
  have hax' : normAxis s.length axis < d.length := by have := normAxis_lt hv; omega
  refine ⟨(List.range (d[normAxis s.length axis] + 1)).map (fun x => d.set (normAxis s.length axis) x),
    by simp [accumAddressed, hax'], ?_⟩
  intro i hi
  simp only [List.mem_map, List.mem_range] at hi
  obtain ⟨x, hx, rfl⟩ := hi
  exact inShape_set_le s d _ d[normAxis s.length axis] x hd (by simp [hax']) (by omega)

/-- `view::cumsum` = `accumulate(add_t)` -/
theorem cumsum_eq_scan [Add α] (a : Arr α) (axis : Int) (hv : ValidAxis a.shape.length axis) (d : Idx)
    (hd : InShape d a.shape) :
    (cumsum a axis).shape = a.shape ∧
      (cumsum a axis).get d = specAccumElem (· + ·) a (normAxis a.shape.length axis) d :=
  ⟨rfl, accumulate_eq_scan _ a axis hv d hd⟩

/-- `view::cumprod` = `accumulate(multiply_t)` -/
theorem cumprod_eq_scan [Mul α] (a : Arr α) (axis : Int) (hv : ValidAxis a.shape.length axis) (d : Idx)
    (hd : InShape d a.shape) :
    (cumprod a axis).shape = a.shape ∧
      (cumprod a axis).get d = specAccumElem (· * ·) a (normAxis a.shape.length axis) d :=
  ⟨rfl, accumulate_eq_scan _ a axis hv d hd⟩

/-! ### non-vacuity: the hypotheses are satisfiable on non-trivial values, and the statements say something -/

example : Pos [2,3,2] ∧ ValidAxes 3 (some [-1, 0]) ∧ InShape [0,2,0] (specShape [2,3,2] (axisSet 3 (some [-1,0])) true) := by
  decide
example : specShape [2,3,4] (axisSet 3 (some [-1, 0])) false = [3] ∧ specShape [2,3,4] (axisSet 3 none) true = [1,1,1] := by
  decide
example : addressed [2,3,2] (axisSet 3 (some [1])) false [1,0] = [[1,0,0],[1,1,0],[1,2,0]] := by decide
example : reduceReads [2,3,2] (some [-2]) false [1,0] = some [[1,0,0],[1,1,0],[1,2,0]] := by decide
example : reduceElem (fun x y => 31 * x + y) none (Arr.iota [2,3,2]) (some [1]) false [1,0]
    = some ((6 * 31 + 8) * 31 + 10) := by decide
example : accumulateElem (fun x y => 31 * x + y) (Arr.iota [2,3]) 1 [1,2] = some ((3 * 31 + 4) * 31 + 5) := by decide
example : ValidAxis 2 (-1) ∧ normAxis 2 (-1) = 1 ∧ InShape [1,2] [2,3] := by decide
example : accumulateElem (fun x y => 31 * x + y) (Arr.iota [2,3]) (-1) [1,2] = some ((3 * 31 + 4) * 31 + 5) := by decide
example : accumulateReads [2,3] (-2) [1,2] = some [[0,2],[1,2]] := by decide
example : ¬ ValidAxes 2 (some [0, -2]) ∧ ¬ ValidAxes 2 (some [2]) := by decide
-- trace: hypotheses satisfiable on a rank-3 array with a negative axis and a negative offset; the statement computes
example : ValidAxis 3 (-1) ∧ ValidAxis 3 0 ∧ normAxis 3 (-1) ≠ normAxis 3 0 ∧ [2,3,4][normAxis 3 (-1)]? = some 4 ∧
    [2,3,4][normAxis 3 0]? = some 2 ∧ (-(-2 : Int)).toNat < 4 ∧ (-2 : Int).toNat < 2 := by decide
example : (trace (· + ·) (some 0) (Arr.iota [2,3,4]) (-2) (-1) 0).map (fun v => (v.shape, v.get [1])) = some ([3], some (6 + 19)) := by
  decide
example : (Linalg.specTrace [2,3,4] (-2) 2 0).map (fun sp => (sp.shape, sp.get [1])) = some ([3], [[0,1,2],[1,1,3]]) := by
  decide
example : (trace (· + ·) (some 0) (Arr.iota [3,4]) 1 0 1).map (fun v => (v.shape, v.get [])) = some ([], some (1 + 6 + 11)) := by decide
-- the repaired defects, as regression guards: an empty diagonal sums to 0, a fold over no element is the initial value / the identity
example : (trace (· + ·) (some 0) (Arr.iota [3,4]) 4 0 1).map (fun v => (v.shape, v.get [])) = some ([], some 0) := by decide
example : reduceElemId (some 0) (· + ·) (some 5) (⟨[2,0], fun _ => (0 : Int)⟩ : Arr Int) (some [1]) false [0] = some 5 := by decide
example : (sum none (⟨[2,0], fun _ => (7 : Int)⟩ : Arr Int) (some [1]) false).map (fun v => (v.shape, v.get [1])) = some ([2], some 0) := by decide
example : (prodReduce none (⟨[0], fun _ => (7 : Int)⟩ : Arr Int) none false).map (fun v => (v.shape, v.get [])) = some ([], some 1) := by decide
-- zero extents: reduced extents positive, a kept extent 0 (no result element); a reduced extent 0 (nothing addressed)
example : ValidAxes 3 (some [-1]) ∧ PosAxes [2,0,3] (axisSet 3 (some [-1])) ∧ ¬ Pos [2,0,3] ∧
    specShape [2,0,3] (axisSet 3 (some [-1])) false = [2,0] ∧ allIdx [2,0] = [] := by decide
example : ValidAxes 3 (some [1]) ∧ ¬ PosAxes [2,0,3] (axisSet 3 (some [1])) ∧
    InShape [1,2] (specShape [2,0,3] (axisSet 3 (some [1])) false) ∧ addressed [2,0,3] (axisSet 3 (some [1])) false [1,2] = [] := by
  decide
example : PosAxes [0,3] (axisSet 2 (some [1])) ∧ PosAxes [2,3] (axisSet 2 none) ∧ ¬ PosAxes [2,0] (axisSet 2 none) := by decide
example : reduceElem (fun x y => 31 * x + y) (some 7) (⟨[2,0,3], fun _ => 1⟩ : Arr Nat) (some [1]) false [1,2] = some 7 ∧
    reduceElem (fun x y => 31 * x + y) none (⟨[2,0,3], fun _ => 1⟩ : Arr Nat) (some [1]) false [1,2] = none := by decide
example : (1 : Nat) ∉ [2] ∧ [4,0,3][1]? = some 0 ∧ specShape [4,0,3] [2] true = [4,0,1] := by decide
-- repeated axes under keepdims: hypotheses satisfiable with a genuine repetition in two spellings; the statement computes
example : (∀ x ∈ [1, -2, 1], ValidAxis 3 x) ∧ [1, -2, 1].map (normAxis 3) = [1, 1, 1] ∧
    InShape [1,0,1] (specShape [2,3,2] ([1, -2, 1].map (normAxis 3)) true) := by decide
example : (reduce (fun x y => 31 * x + y) none (Arr.iota [2,3,2]) (some [1, -2, 1]) true).map (fun v => (v.shape, v.get [1,0,1]))
    = some ([2,1,2], some ((7 * 31 + 9) * 31 + 11)) := by decide
example : reduce (fun x y => 31 * x + y) none (Arr.iota [2,3,2]) (some [1, 1]) false = none := by decide
-- mean / var of the rows of [[1,2,3],[4,5,6]] over exact "rationals as (numerator, denominator)" would need a field;
-- over Nat with truncating division the statements still compute: mean = [2,5], var (ddof 0) = [(1+0+1)/3, …] = [0,0]
example : (mean (· + ·) (fun x n => x / n) (Arr.iota [2,3]) (some [-1]) false).map (fun v => (v.shape, v.get [1]))
    = some ([2], some 4) := by decide
example : specVarElem (· + ·) (fun x y => x - y) (fun x => x * x) (fun x n => x / n) (Arr.iota [2,3]) [1] false 0 [1]
    = some ((0 + 0 + 1) / 3) := by decide

end NmVerif.Props.C08
