// C01 harness: strides / offset / indices / ndindex / ndarray element access, from $VERIF_REPO/include
#include "nmtools/array/index/compute_strides.hpp"
#include "nmtools/array/index/compute_offset.hpp"
#include "nmtools/array/index/compute_indices.hpp"
#include "nmtools/array/index/ndindex.hpp"
#include "nmtools/array/index/product.hpp"
#include "nmtools/array/ndarray.hpp"
#include "nmtools/utility/at.hpp"
#include "proto.hpp"
#include <array>

namespace nm = nmtools; namespace ix = nmtools::index; namespace na = nmtools::array;
using namespace proto;

template <typename V> static std::string fmtn(const V& v) {
    return fmt_with(v, [](const auto& x){ return (size_t)nm::len(x); }, [](const auto& x, size_t i){ return nm::at(x,i); });
}

// run f with the shape in the requested container kind
template <typename F> static std::string with_kind(const std::string& kind, const uvec& s, F f) {
    if (kind=="vec") return f(s);
    if (kind=="sv") { nmtools_static_vector<size_t,8> v; v.resize(s.size()); for (size_t i=0;i<s.size();i++) v[i]=s[i]; return f(v); }
    if (kind=="arr") {
        switch (s.size()) {
#define CASE(N) case N: { std::array<size_t,N> v{}; for (size_t i=0;i<N;i++) v[i]=s[i]; return f(v); }
            CASE(1) CASE(2) CASE(3) CASE(4) CASE(5) CASE(6)
#undef CASE
            default: return "unsupported-kind";
        }
    }
    return "unsupported-kind";
}

template <typename array_t> static std::string nd_get(const uvec& shape, const uvec& idx) {
    array_t a; a.resize(shape);
    size_t n = nm::size(a);
    for (size_t k=0;k<n;k++) a.data()[k] = (int)k;
    return "ok " + std::to_string((long long)nm::apply_at(a, idx));
}
template <typename array_t> static std::string nd_set(const uvec& shape, const uvec& idx) {
    array_t a; a.resize(shape);
    size_t n = nm::size(a);
    for (size_t k=0;k<n;k++) a.data()[k] = 0;
    nm::apply_at(a, idx) = 1;
    uvec changed; for (size_t k=0;k<n;k++) if (a.data()[k]==1) changed.push_back(k);
    return "ok " + fmt(changed);
}

std::string handle(const std::string& op, const Args& a) {
    std::string kind = has(a,"kind") ? get(a,"kind") : "vec";
    if (op=="strides") {
        return with_kind(kind, nats(a,"shape"), [](const auto& s){ return "ok " + fmtn(ix::compute_strides(s)); });
    }
    if (op=="product") {
        return with_kind(kind, nats(a,"shape"), [](const auto& s){ return "ok " + std::to_string((unsigned long long)ix::product(s)); });
    }
    if (op=="offset") {
        auto st = nats(a,"strides");
        return with_kind(kind, nats(a,"idx"), [&](const auto& i){ return "ok " + std::to_string((unsigned long long)ix::compute_offset(i, st)); });
    }
    if (op=="indices") {
        size_t off = (size_t)integer(a,"off");
        return with_kind(kind, nats(a,"shape"), [&](const auto& s){ return "ok " + fmtn(ix::compute_indices(off, s)); });
    }
    if (op=="ndindex") {   // through ndindex_t, the enumeration evaluators use
        size_t off = (size_t)integer(a,"off");
        auto s = nats(a,"shape");
        auto nd = ix::ndindex(s);
        return "ok " + fmtn(nd[off]) + " size=" + std::to_string((unsigned long long)nd.size());
    }
    if (op=="nd_get" || op=="nd_set") {
        using row_t = na::ndarray_t<std::vector<int>, std::vector<size_t>>;
        using col_t = na::column_major_ndarray_t<std::vector<int>, std::vector<size_t>>;
        bool col = get(a,"layout")=="col";
        auto s = nats(a,"shape"); auto i = nats(a,"idx");
        if (op=="nd_get") return col ? nd_get<col_t>(s,i) : nd_get<row_t>(s,i);
        return col ? nd_set<col_t>(s,i) : nd_set<row_t>(s,i);
    }
    return "unknown-op";
}
