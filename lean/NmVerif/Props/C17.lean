import NmVerif.NN.PoolLemmas
/-
  C17 — neural-network routines equal their reference (PyTorch) definitions.

  MODEL  NmVerif.NN.Conv (view::convnd pipeline), NmVerif.NN.Pool (index::shape_pool2d, slice_pool2d, pool2d window)
  SPEC   NmVerif.NN.Spec (`outSize`, `poolOutSpec`, `specWindow`, `conv1dLoop` with `grpSpec`)
  Floating-point tolerance is the harness's business; these theorems are about shapes and about which source
  elements are combined.
-/
namespace NmVerif.Props.C17
open NmVerif NmVerif.NN

/-! ## pooling -/

/-- `index::shape_pool2d` gives the standard extents on every axis pair, for any number of leading axes, in floor
    mode and in ceil mode — on `PoolDom` (positive kernel that fits, positive stride, and in ceil mode the last
    counted window starts inside the input; outside that domain see `pool_ceil_counterexample`). -/
theorem pool_out_shape_eq_formula (lead : List Nat) (H W kh kw sh sw : Nat) (ceil : Bool)
    (hH : PoolDom H kh sh ceil) (hW : PoolDom W kw sw ceil) :
    shapePool2d (lead ++ [H, W]) [kh, kw] [sh, sw] ceil
      = some (lead ++ [poolOutSpec H kh sh ceil, poolOutSpec W kw sw ceil]) := by
  rw [shapePool2d_append, poolExtent_eq_spec hH, poolExtent_eq_spec hW]

example : shapePool2d [2, 3, 5, 7] [2, 3] [2, 2] true = some [2, 3, 3, 3] := by decide
example : PoolDom 5 2 2 true ∧ PoolDom 7 3 2 true := by decide

/-- floor mode is exactly `⌊(n + 2·0 − 1·(k−1) − 1)/s⌋ + 1` -/
theorem pool_out_shape_floor (n k s : Nat) : poolOutSpec n k s false = outSize n k s 0 1 := rfl

/-- the ceil-mode correction never fires when `stride ≤ kernel`: the whole of that parameter range is in the domain -/
theorem pool_dom_of_stride_le_kernel (n k s : Nat) (ceil : Bool) (hk : 0 < k) (hkn : k ≤ n) (hs : 0 < s) (hsk : s ≤ k) :
    PoolDom n k s ceil := poolDom_of_stride_le_kernel ceil hk hkn hs hsk

/-- known finding pool.ceil-window-outside: extent 4, kernel 1, stride 2, ceil mode — the code counts 3 windows,
    the third starts at index 4 = outside; PyTorch gives 2. -/
theorem pool_ceil_counterexample : poolExtent 4 1 2 true = 3 ∧ poolOutSpec 4 1 2 true = 2 ∧ ¬ PoolDom 4 1 2 true := by decide

/-- the source elements `pool2d_t::operator()` hands to the reducer for output index `li ++ [i, j]` are exactly the
    reference window (rows `s_h·i ≤ a < min(s_h·i + k_h, H)`, columns likewise — overhang clipped), in row-major order. -/
theorem pool_elem_eq_window_reduce (lead li : List Nat) (H W kh kw sh sw i j : Nat) (ceil : Bool)
    (hH : PoolDom H kh sh ceil) (hW : PoolDom W kw sw ceil)
    (hidx : InShape (li ++ [i, j]) (lead ++ [poolExtent H kh sh ceil, poolExtent W kw sw ceil]))
    (hli : InShape li lead) :
    poolWindow (lead ++ [H, W]) [kh, kw] [sh, sw] (li ++ [i, j]) = some (specWindow li H W kh kw sh sw i j) := by
  have hij : InShape [i, j] [poolExtent H kh sh ceil, poolExtent W kw sw ceil] := by
    have := hidx
    clear hidx
    induction lead generalizing li with
    | nil =>
      cases li with
      | nil => simpa using this
      | cons a as => simp [InShape] at hli
    | cons x xs ih =>
      cases li with
      | nil => simp [InShape] at hli
      | cons a as =>
        simp only [InShape] at hli
        simp only [List.cons_append, InShape] at this
        exact ih as hli.2 this.2
  simp only [InShape] at hij
  exact poolWindow_eq_spec hli hH.1 hW.1 (pool_start_lt hH hij.1) (pool_start_lt hW hij.2.1)

example : poolWindow [2, 5, 5] [2, 2] [2, 2] [1, 2, 1] = some [[1, 4, 2], [1, 4, 3]] := by decide

/-- every index of every window lies inside the input (the overhang of ceil mode is clipped, nothing is read
    outside) and the window is non-empty -/
theorem pool_window_in_bounds (lead li : List Nat) (H W kh kw sh sw i j : Nat) (ceil : Bool)
    (hH : PoolDom H kh sh ceil) (hW : PoolDom W kw sw ceil)
    (hidx : InShape (li ++ [i, j]) (lead ++ [poolExtent H kh sh ceil, poolExtent W kw sw ceil]))
    (hli : InShape li lead) :
    ∃ win, poolWindow (lead ++ [H, W]) [kh, kw] [sh, sw] (li ++ [i, j]) = some win
      ∧ win ≠ [] ∧ ∀ x ∈ win, InShape x (lead ++ [H, W]) := by
  refine ⟨_, pool_elem_eq_window_reduce lead li H W kh kw sh sw i j ceil hH hW hidx hli, ?_, specWindow_inShape hli⟩
  have hij : sh * i < H ∧ sw * j < W := by
    have h := pool_elem_eq_window_reduce lead li H W kh kw sh sw i j ceil hH hW hidx hli
    have hij : InShape [i, j] [poolExtent H kh sh ceil, poolExtent W kw sw ceil] := by
      have := hidx
      clear hidx h
      induction lead generalizing li with
      | nil =>
        cases li with
        | nil => simpa using this
        | cons a as => simp [InShape] at hli
      | cons x xs ih =>
        cases li with
        | nil => simp [InShape] at hli
        | cons a as =>
          simp only [InShape] at hli
          simp only [List.cons_append, InShape] at this
          exact ih as hli.2 this.2
    simp only [InShape] at hij
    exact ⟨pool_start_lt hH hij.1, pool_start_lt hW hij.2.1⟩
  intro hnil
  have hmem : li ++ [sh * i, sw * j] ∈ specWindow li H W kh kw sh sw i j := by
    unfold specWindow
    simp only [List.mem_flatMap, List.mem_map, mem_rangeFrom]
    exact ⟨sh * i, ⟨Nat.le_refl _, by have := hH.1; omega⟩, sw * j, ⟨Nat.le_refl _, by have := hW.1; omega⟩, rfl⟩
  rw [hnil] at hmem
  simp at hmem

example : PoolDom 5 3 2 true ∧ poolExtent 5 3 2 true = 2 := by decide

end NmVerif.Props.C17
