"""C04 — additional generators whose requests are answered by the Lean models of Index/Where.lean and
Index/Generators.lean as well (IMPL vs MODEL vs ORACLE): where with three differently shaped operands (compatible and
incompatible), arange / linspace / full / zeros / ones(_like) with a model answer."""
import itertools
from fractions import Fraction
import numpy as np
from runner import Case
from shapes import shapes, prod, fmt
from props import c04_bc
from props.c04_bc import iota, ans, sample

H_D = c04_bc.H_D


# ---------------------------------------------------------------------------------------------------------------
# where: three operands of different shapes / ranks; Nothing iff the shapes do not broadcast
# ---------------------------------------------------------------------------------------------------------------

def gen_where_more(tier, rng):
    R, E = (3, 3) if tier == 'quick' else (4, 4)
    pool = [list(s) for s in shapes(R, E, min_rank=1)]
    n = 500 if tier == 'quick' else 4000
    made = 0
    guard = 0
    want_bad = n // 4
    bad = 0
    while made < n and guard < 50 * n:
        guard += 1
        if rng.random() < 0.6:
            # derive x and y from a common shape so that compatible triples are frequent
            base = rng.choice(pool)
            vs = c04_bc.bcast_variants(base)
            sc, sx, sy = rng.choice(vs), rng.choice(vs), rng.choice(vs)
            if rng.random() < 0.3:
                k = rng.randrange(len(sx))
                sx = c04_bc._with(sx, k, rng.randint(1, E))
        else:
            sc, sx, sy = rng.choice(pool), rng.choice(pool), rng.choice(pool)
        try:
            np.broadcast_shapes(tuple(sc), tuple(sx), tuple(sy))
            ok = True
        except ValueError:
            ok = False
        if not ok:
            if bad >= want_bad:
                continue
            bad += 1
        if prod(sc) > 64:
            continue
        made += 1
        c = [rng.choice((0, 0, 1, 1, 2, -1)) for _ in range(prod(sc))]
        req = 'where shape=%s cond=%s shape2=%s shape3=%s' % (fmt(sc), fmt(c), fmt(sx), fmt(sy))
        if ok:
            cond = np.array(c, dtype=np.int64).reshape(sc)
            o = ans(np.where(cond != 0, iota(sx, 1000), iota(sy, 2000)))
        else:
            o = 'nothing'
        ranks = sorted({len(sc), len(sx), len(sy)})
        yield Case(req, H_D, oracle=o, nontrivial=ok, tags=['where', 'where.three-shapes', 'compatible' if ok else 'incompatible',
                                                           'ranks-differ' if len(ranks) > 1 else 'ranks-equal'])


GENS = [gen_where_more]


def gen_more(tier, rng):
    for g in GENS:
        yield from g(tier, rng)
