import NmVerif.Linalg
import NmVerif.Lemmas.Addressing
namespace NmVerif
open NmVerif.MB
open Linalg

@[simp] theorem getNeg?_append_one (b : List Nat) (x : Nat) : getNeg? (b ++ [x]) 1 = some x := by
  simp [getNeg?]

@[simp] theorem getNeg?_append_two_1 (b : List Nat) (x y : Nat) : getNeg? (b ++ [x, y]) 1 = some y := by
  have : b ++ [x, y] = (b ++ [x]) ++ [y] := by simp
  rw [this]; exact getNeg?_append_one _ _

@[simp] theorem getNeg?_append_two_2 (b : List Nat) (x y : Nat) : getNeg? (b ++ [x, y]) 2 = some x := by
  simp [getNeg?]

theorem getNeg?_single_2 (x : Nat) : getNeg? [x] 2 = none := by simp [getNeg?]

@[simp] theorem setNeg_append_one (b : List Nat) (x v : Nat) : setNeg (b ++ [x]) 1 v = b ++ [v] := by
  simp [setNeg]

@[simp] theorem setNeg_append_two_2 (b : List Nat) (x y v : Nat) : setNeg (b ++ [x, y]) 2 v = b ++ [v, y] := by
  simp [setNeg]

@[simp] theorem setNeg_append_two_1 (b : List Nat) (x y v : Nat) : setNeg (b ++ [x, y]) 1 v = b ++ [x, v] := by
  have : b ++ [x, y] = (b ++ [x]) ++ [y] := by simp
  rw [this, setNeg_append_one]; simp

@[simp] theorem swapLast2_append (b : List Nat) (x y : Nat) : swapLast2 (b ++ [x, y]) = b ++ [y, x] := by
  simp [swapLast2]

theorem exists_append_two (s : List Nat) (h : 2 ≤ s.length) : ∃ b x y, s = b ++ [x, y] := by
  refine ⟨s.take (s.length - 2), s[s.length - 2]'(by omega), s[s.length - 1]'(by omega), ?_⟩
  apply List.ext_getElem
  · simp; omega
  · intro i h1 h2
    simp only [List.getElem_append]
    split
    · simp
    · rename_i hh
      simp at hh
      have : i = s.length - 2 ∨ i = s.length - 1 := by simp at h2; omega
      rcases this with rfl | rfl
      · simp [show min (s.length - 2) s.length = s.length - 2 by omega]
      · simp [show min (s.length - 2) s.length = s.length - 2 by omega, show s.length - 1 - (s.length - 2) = 1 by omega]

theorem exists_append_one (s : List Nat) (h : 1 ≤ s.length) : ∃ b x, s = b ++ [x] := by
  refine ⟨s.dropLast, s.getLast (by intro h'; simp [h'] at h), ?_⟩
  exact (List.dropLast_concat_getLast _).symm


/-! ### InShape and append -/

theorem inShape_append {p q s t : List Nat} (hl : p.length = s.length) :
    InShape (p ++ q) (s ++ t) ↔ InShape p s ∧ InShape q t := by
  induction s generalizing p with
  | nil => cases p <;> simp_all [InShape]
  | cons a s ih =>
    cases p with
    | nil => simp at hl
    | cons x p =>
      simp only [List.cons_append, InShape]
      rw [ih (by simpa using hl)]
      constructor
      · rintro ⟨h1, h2, h3⟩; exact ⟨⟨h1, h2⟩, h3⟩
      · rintro ⟨⟨h1, h2⟩, h3⟩; exact ⟨h1, h2, h3⟩

theorem inShape_one {i m : Nat} : InShape [i] [m] ↔ i < m := by simp [InShape]

theorem inShape_two {i j m n : Nat} : InShape [i, j] [m, n] ↔ i < m ∧ j < n := by simp [InShape]

/-- an index into `s ++ t` splits -/
theorem mb_inShape_append_split {d s t : List Nat} (h : InShape d (s ++ t)) :
    ∃ p q, d = p ++ q ∧ InShape p s ∧ InShape q t := by
  have hl := h.length_eq
  refine ⟨d.take s.length, d.drop s.length, (List.take_append_drop _ _).symm, ?_⟩
  have hl' : (d.take s.length).length = s.length := by simp at hl ⊢; omega
  have := (inShape_append (q := d.drop s.length) (t := t) hl').1 (by rw [List.take_append_drop]; exact h)
  exact this

theorem inShape_append_two {d s : List Nat} {m n : Nat} (h : InShape d (s ++ [m, n])) :
    ∃ p i j, d = p ++ [i, j] ∧ InShape p s ∧ i < m ∧ j < n := by
  obtain ⟨p, q, rfl, hp, hq⟩ := mb_inShape_append_split h
  match q, hq with
  | [i, j], hq => exact ⟨p, i, j, rfl, hp, (inShape_two.1 hq).1, (inShape_two.1 hq).2⟩
  | [], hq => simp [InShape] at hq
  | [_], hq => simp [InShape] at hq
  | _ :: _ :: _ :: _, hq => simp [InShape] at hq

theorem inShape_append_one {d s : List Nat} {m : Nat} (h : InShape d (s ++ [m])) :
    ∃ p i, d = p ++ [i] ∧ InShape p s ∧ i < m := by
  obtain ⟨p, q, rfl, hp, hq⟩ := mb_inShape_append_split h
  match q, hq with
  | [i], hq => exact ⟨p, i, rfl, hp, inShape_one.1 hq⟩
  | [], hq => simp [InShape] at hq
  | _ :: _ :: _, hq => simp [InShape] at hq

theorem Pos_append {s t : List Nat} : Pos (s ++ t) ↔ Pos s ∧ Pos t := by
  simp only [Pos, List.mem_append]
  constructor
  · intro h; exact ⟨fun x hx => h x (Or.inl hx), fun x hx => h x (Or.inr hx)⟩
  · rintro ⟨h1, h2⟩ x (hx | hx); exact h1 x hx; exact h2 x hx

/-! ### broadcast -/

theorem bc1_self (x : Nat) : bc1 x x = some x := by simp [bc1]
theorem bc1_one_right {x : Nat} (h : 0 < x) : bc1 x 1 = some x := by
  simp only [bc1]; simp; omega
theorem bc1_one_left {x : Nat} (h : 0 < x) : bc1 1 x = some x := by
  simp only [bc1]; simp; omega
theorem bc1_comm (x y : Nat) : bc1 x y = bc1 y x := by
  simp only [bc1, Nat.max_comm, eq_comm, or_comm]

theorem mb_bcRev_nil_right (a : List Nat) : bcRev a [] = some a := by cases a <;> rfl

theorem mb_bcRev_comm (a b : List Nat) : bcRev a b = bcRev b a := by
  induction a generalizing b with
  | nil => cases b <;> rfl
  | cons x xs ih =>
    cases b with
    | nil => rfl
    | cons y ys => simp only [bcRev, bc1_comm x y, ih ys]

theorem broadcastShape_comm (a b : Shape) : broadcastShape a b = broadcastShape b a := by
  simp [broadcastShape, mb_bcRev_comm]

@[simp] theorem broadcastShape_nil_left (b : Shape) : broadcastShape [] b = some b := by
  simp [broadcastShape, bcRev]
@[simp] theorem broadcastShape_nil_right (a : Shape) : broadcastShape a [] = some a := by
  simp [broadcastShape, mb_bcRev_nil_right]

theorem broadcastShape_append_one (a b : Shape) (x y : Nat) :
    broadcastShape (a ++ [x]) (b ++ [y]) =
      match bc1 x y with
      | none => none
      | some m => (broadcastShape a b).map (· ++ [m]) := by
  simp only [broadcastShape, List.reverse_append, List.reverse_cons, List.reverse_nil, List.nil_append,
    List.singleton_append, bcRev]
  cases bc1 x y with
  | none => rfl
  | some m => cases bcRev a.reverse b.reverse <;> simp

theorem bcRev_length {a b c : List Nat} (h : bcRev a b = some c) : c.length = max a.length b.length := by
  induction a generalizing b c with
  | nil => simp [bcRev] at h; subst h; simp
  | cons x xs ih =>
    cases b with
    | nil => simp [bcRev] at h; subst h; simp
    | cons y ys =>
      simp only [bcRev] at h
      cases hb : bc1 x y with
      | none => simp [hb] at h
      | some m =>
        simp only [hb] at h
        cases hr : bcRev xs ys with
        | none => simp [hr] at h
        | some r =>
          simp [hr] at h; subst h
          simp [ih hr]

theorem broadcastShape_length {a b c : Shape} (h : broadcastShape a b = some c) :
    c.length = max a.length b.length := by
  simp only [broadcastShape, Option.map_eq_some_iff] at h
  obtain ⟨r, hr, rfl⟩ := h
  simpa using bcRev_length hr


@[simp] theorem bcIdx_nil (d : Idx) : bcIdx d [] = [] := by simp [bcIdx]

theorem bcIdx_append {β τ s t : List Nat} (h1 : τ.length = t.length) (h2 : s.length ≤ β.length) :
    bcIdx (β ++ τ) (s ++ t) = bcIdx β s ++ bcIdx τ t := by
  unfold bcIdx
  have e1 : (β ++ τ).length - (s ++ t).length = β.length - s.length := by simp; omega
  rw [e1, List.drop_append_of_le_length (by omega)]
  have e2 : τ.length - t.length = 0 := by omega
  rw [e2, List.drop_zero]
  rw [List.zipWith_append (by simp; omega)]

theorem bcIdx_self {d s : List Nat} (h : InShape d s) : bcIdx d s = d := by
  have hl := h.length_eq
  unfold bcIdx
  rw [hl, Nat.sub_self, List.drop_zero]
  induction s generalizing d with
  | nil => cases d <;> simp_all
  | cons a s ih =>
    cases d with
    | nil => simp at hl
    | cons x d =>
      simp only [InShape] at h
      simp only [List.zipWith_cons_cons]
      rw [ih h.2 (by simpa using hl)]
      congr 1
      split
      · omega
      · rfl

@[simp] theorem bcIdx_one_one (β : List Nat) (i : Nat) : bcIdx (β ++ [i]) [1] = [0] := by
  simp [bcIdx]

/-- broadcasting keeps operand indices inside the operand -/
theorem bcIdx_inShape_left : ∀ (n : Nat) (a b bs β : List Nat), a.length = n → Pos a → broadcastShape a b = some bs →
    InShape β bs → InShape (bcIdx β a) a := by
  intro n
  induction n with
  | zero =>
    intro a b bs β ha _ _ _
    have : a = [] := List.length_eq_zero_iff.1 ha
    subst this; simp [InShape]
  | succ n ih =>
    intro a b bs β ha hpa hb hβ
    obtain ⟨a', x, rfl⟩ := exists_append_one a (by omega)
    rcases List.eq_nil_or_concat b with rfl | ⟨b', y, rfl⟩
    · simp at hb; subst hb
      rw [bcIdx_self hβ]; exact hβ
    · rw [← List.concat_eq_append] at hb
      simp only [List.concat_eq_append] at hb
      rw [broadcastShape_append_one] at hb
      cases h1 : bc1 x y with
      | none => simp [h1] at hb
      | some m =>
        simp only [h1, Option.map_eq_some_iff] at hb
        obtain ⟨bs', hbs', rfl⟩ := hb
        obtain ⟨β', t, rfl, hβ', ht⟩ := inShape_append_one hβ
        have hlen := broadcastShape_length hbs'
        have hβl := hβ'.length_eq
        rw [bcIdx_append (β := β') (τ := [t]) (s := a') (t := [x]) (by simp) (by omega)]
        rw [inShape_append (by simp [bcIdx]; omega)]
        have hpa' := Pos_append.1 hpa
        have hxpos : 0 < x := hpa'.2 x (by simp)
        refine ⟨ih a' b' bs' β' (by simpa using ha) hpa'.1 hbs' hβ', ?_⟩
        simp only [bcIdx, List.length_cons, List.length_nil, Nat.sub_self, List.drop_zero, List.zipWith_cons_cons,
          List.zipWith_nil_right, inShape_one]
        have hx : x = y ∨ x = 1 ∨ y = 1 := by
          by_cases hc : x = y ∨ x = 1 ∨ y = 1
          · exact hc
          · simp [bc1, hc] at h1
        have hm : m = max x y := by
          simp only [bc1, hx, if_true] at h1; simp at h1; omega
        by_cases hx1 : x = 1
        · simp [hx1]
        · simp only [hx1, if_false]; omega

theorem bcIdx_inShape_right {a b bs β : List Nat} (hp : Pos b) (h : broadcastShape a b = some bs) (hβ : InShape β bs) :
    InShape (bcIdx β b) b :=
  bcIdx_inShape_left b.length b a bs β rfl hp (by rw [broadcastShape_comm]; exact h) hβ

theorem bcIdx_inShape_left' {a b bs β : List Nat} (hp : Pos a) (h : broadcastShape a b = some bs) (hβ : InShape β bs) :
    InShape (bcIdx β a) a := bcIdx_inShape_left a.length a b bs β rfl hp h hβ

theorem mapM_range_some {α : Type} (n : Nat) (f : Nat → Option α) (g : Nat → α) (h : ∀ i, i < n → f i = some (g i)) :
    (List.range n).mapM f = some ((List.range n).map g) := by
  induction n with
  | zero => simp
  | succ n ih =>
    rw [List.range_succ, List.mapM_append, ih (fun i hi => h i (by omega))]
    simp [h n (by omega)]

end NmVerif
