import NmVerif.Lemmas.LinalgMatmulV2
/-
  Lemmas for vecdot / inner / dot / outer of C16.
-/
namespace NmVerif
open NmVerif.MB
open Linalg

/-! ### vecdot -/

theorem vecdot_elem (X Y bs : Shape) (k : Nat) (hbs : broadcastShape X Y = some bs) :
    ∃ r, vecdot (X ++ [k]) (Y ++ [k]) = some r ∧ r.shape = bs ∧
      ∀ d, d.length = bs.length →
        r.get d = (List.range k).map (fun kk => (bcIdx d X ++ [kk], bcIdx d Y ++ [kk])) := by
  obtain ⟨r, hr, hrsh, hrget⟩ := contract_last (ident (X ++ [k])) (ident (Y ++ [k])) X Y bs k rfl rfl hbs
  refine ⟨r, ?_, hrsh, ?_⟩
  · unfold vecdot
    simp only [Option.bind_eq_bind, Option.pure_def]
    cases hm : mulT (ident (X ++ [k])) (ident (Y ++ [k])) with
    | none => simp [hm] at hr
    | some mm =>
      simp only [hm, Option.map_some, Option.some.injEq] at hr
      simp only [Option.bind_some]
      have hsh : mm.shape = bs ++ [k] := by
        simp only [mulT, bcast2, ident] at hm
        rw [broadcastShape_append_one, bc1_self] at hm
        simp only [hbs, Option.map_some] at hm
        simp only [Option.some.injEq] at hm
        rw [← hm]
      rw [if_neg (by rw [hsh]; simp), hr]
  · intro d hd
    rw [hrget d hd]; rfl

theorem specVecdot_eq (X Y bs : Shape) (k : Nat) (hbs : broadcastShape X Y = some bs) :
    specVecdot (X ++ [k]) (Y ++ [k]) = some ⟨bs, fun d => (List.range k).map (fun kk => (bcIdx d X ++ [kk], bcIdx d Y ++ [kk]))⟩ := by
  simp [specVecdot, hbs]

/-- `view::vecdot` = `np.vecdot` -/
theorem vecdot_eq_spec (sa sb : Shape) (s : Arr (List Term)) (ha : 1 ≤ sa.length) (hb : 1 ≤ sb.length)
    (hacc : specVecdot sa sb = some s) :
    ∃ r, vecdot sa sb = some r ∧ r.shape = s.shape ∧ ∀ d, InShape d s.shape → r.get d = s.get d := by
  obtain ⟨X, k, rfl⟩ := exists_append_one sa ha
  obtain ⟨Y, k', rfl⟩ := exists_append_one sb hb
  have hk : k = k' := by
    simp only [specVecdot, List.getLast?_append, List.getLast?_singleton, Option.some_or] at hacc
    by_cases h : k = k'
    · exact h
    · simp [h] at hacc
  subst hk
  cases hbs : broadcastShape X Y with
  | none => simp [specVecdot, hbs] at hacc
  | some bs =>
    rw [specVecdot_eq X Y bs k hbs] at hacc
    simp only [Option.some.injEq] at hacc
    subst hacc
    obtain ⟨r, hr, hsh, hget⟩ := vecdot_elem X Y bs k hbs
    exact ⟨r, hr, hsh, fun d hd => hget d hd.length_eq⟩

theorem computeOffset_zeros (n : Nat) (st : List Nat) : computeOffset (List.replicate n 0) st = 0 := by
  induction n generalizing st with
  | zero => cases st <;> simp [computeOffset]
  | succ n ih => cases st <;> simp [List.replicate_succ, computeOffset, ih]

theorem prod_ones (n : Nat) : prod (List.replicate n 1) = 1 := by
  induction n with
  | zero => rfl
  | succ n ih => simp [List.replicate_succ, prod, ih]

theorem inShape_zeros_ones (n : Nat) : InShape (List.replicate n 0) (List.replicate n 1) := by
  induction n with
  | zero => simp [InShape]
  | succ n ih => simp [List.replicate_succ, InShape, ih]

/-- an operand padded with trailing ones broadcasts against a shape of that many axes by appending -/
theorem broadcastShape_ones_right (a : List Nat) : ∀ (n : Nat) (b : List Nat), b.length = n → Pos b →
    broadcastShape (a ++ List.replicate n 1) b = some (a ++ b) := by
  intro n
  induction n with
  | zero => intro b hb _; have : b = [] := List.length_eq_zero_iff.1 hb; subst this; simp
  | succ n ih =>
    intro b hb hp
    obtain ⟨b', y, rfl⟩ := exists_append_one b (by omega)
    have hp' := Pos_append.1 hp
    rw [List.replicate_succ', ← List.append_assoc, broadcastShape_append_one, bc1_one_left (hp'.2 y (by simp))]
    simp only
    rw [ih b' (by simpa using hb) hp'.1]
    simp

theorem bcIdx_ones (q : List Nat) : bcIdx q (List.replicate q.length 1) = List.replicate q.length 0 := by
  unfold bcIdx
  simp only [List.length_replicate, Nat.sub_self, List.drop_zero]
  induction q with
  | nil => rfl
  | cons x q ih => simp [List.replicate_succ, ih]

theorem bcIdx_drop_prefix (p q s : List Nat) (h : q.length = s.length) : bcIdx (p ++ q) s = bcIdx q s := by
  have := bcIdx_append (β := p) (τ := q) (s := []) (t := s) h (by simp)
  simpa using this

theorem innerLhsReshape_eq (ba bb : List Nat) (k k' : Nat) :
    innerLhsReshape (ba ++ [k]) (bb ++ [k']) = some (ba ++ List.replicate bb.length 1 ++ [k]) := by
  simp only [innerLhsReshape, List.length_append, List.length_cons, List.length_nil, getNeg?_append_one]
  have e1 : (ba ++ [k]).take (ba.length + (0 + 1) - 1) = ba := by simp
  rw [e1]
  have e2 : (if ba.length + (0 + 1) + (bb.length + (0 + 1)) - 1 > ba.length + (0 + 1) then ba.length + (0 + 1) + (bb.length + (0 + 1)) - 1
      else ba.length + (0 + 1)) - (ba.length + (0 + 1) - 1) = bb.length + 1 := by
    split <;> omega
  rw [e2, List.replicate_succ', ← List.append_assoc]
  simp only [List.length_append, List.length_replicate, List.length_cons, List.length_nil, setNeg_append_one]
  rw [if_pos (by omega)]

/-- lhs of `inner`: `reshape(lhs, (…, 1, …, 1, k))` at `[p…, 0…0, kk]` is `lhs[p…, kk]` -/
theorem inner_lhs (ba : List Nat) (n k : Nat) :
    ∃ l, reshape (ident (ba ++ [k])) (ba ++ List.replicate n 1 ++ [k]) = some l ∧
      l.shape = ba ++ List.replicate n 1 ++ [k] ∧
      ∀ p kk, InShape p ba → kk < k → l.get (p ++ List.replicate n 0 ++ [kk]) = p ++ [kk] := by
  have hp : prod (ident (ba ++ [k])).shape = prod (ba ++ List.replicate n 1 ++ [k]) := by
    simp [ident, prod_append, prod_ones]
  rw [reshape_some _ _ hp]
  refine ⟨_, rfl, rfl, ?_⟩
  intro p kk hp' hkk
  simp only [ident, id]
  have hin : InShape (p ++ [kk]) (ba ++ [k]) := by
    rw [inShape_append hp'.length_eq]; exact ⟨hp', by simpa [InShape] using hkk⟩
  apply ndindex_of_offset_eq hin
  rw [offset_append _ _ _ _ hp'.length_eq]
  rw [List.append_assoc, List.append_assoc, offset_append _ _ _ _ hp'.length_eq]
  rw [offset_append _ _ _ _ (by simp), computeOffset_zeros]
  simp [prod_append, prod_ones]

theorem inner_elem (ba bb : Shape) (k : Nat) (hpb : Pos bb) :
    ∃ r, inner (ba ++ [k]) (bb ++ [k]) = some r ∧ r.shape = ba ++ bb ∧
      ∀ p q, InShape p ba → InShape q bb →
        r.get (p ++ q) = (List.range k).map (fun kk => (p ++ [kk], q ++ [kk])) := by
  obtain ⟨l, hl, hlsh, hlget⟩ := inner_lhs ba bb.length k
  obtain ⟨r, hr, hrsh, hrget⟩ := contract_last l (ident (bb ++ [k])) (ba ++ List.replicate bb.length 1) bb (ba ++ bb) k
    hlsh rfl (broadcastShape_ones_right ba bb.length bb rfl hpb)
  refine ⟨r, ?_, hrsh, ?_⟩
  · unfold inner
    simp only [innerLhsReshape_eq, Option.bind_eq_bind, Option.pure_def, Option.bind_some]
    rw [hl]; simp only [Option.bind_some]
    exact mulT_sumLast hr
  · intro p q hp hq
    rw [hrget (p ++ q) (by simp [hp.length_eq, hq.length_eq])]
    apply List.map_congr_left
    intro kk hkk
    have hkk' := List.mem_range.1 hkk
    rw [bcIdx_append (β := p) (τ := q) (s := ba) (t := List.replicate bb.length 1) (by simp [hq.length_eq]) (by rw [hp.length_eq]; exact Nat.le_refl _)]
    rw [bcIdx_self hp, ← hq.length_eq, bcIdx_ones, bcIdx_drop_prefix p q bb hq.length_eq, bcIdx_self hq]
    rw [hq.length_eq, hlget p kk hp hkk']
    rfl

theorem specInner_eq (ba bb : Shape) (k : Nat) :
    specInner (ba ++ [k]) (bb ++ [k]) = some ⟨ba ++ bb, fun d =>
      (List.range k).map (fun kk => (d.take ba.length ++ [kk], d.drop ba.length ++ [kk]))⟩ := by
  simp [specInner]

/-- `view::inner` = `np.inner` -/
theorem inner_eq_spec (sa sb : Shape) (s : Arr (List Term)) (ha : 1 ≤ sa.length) (hb : 1 ≤ sb.length) (hpb : Pos sb)
    (hacc : specInner sa sb = some s) :
    ∃ r, inner sa sb = some r ∧ r.shape = s.shape ∧ ∀ d, InShape d s.shape → r.get d = s.get d := by
  obtain ⟨X, k, rfl⟩ := exists_append_one sa ha
  obtain ⟨Y, k', rfl⟩ := exists_append_one sb hb
  have hk : k = k' := by
    simp only [specInner, List.getLast?_append, List.getLast?_singleton, Option.some_or] at hacc
    by_cases h : k = k'
    · exact h
    · simp [h] at hacc
  subst hk
  rw [specInner_eq] at hacc
  simp only [Option.some.injEq] at hacc
  subst hacc
  obtain ⟨r, hr, hsh, hget⟩ := inner_elem X Y k (Pos_append.1 hpb).1
  refine ⟨r, hr, hsh, ?_⟩
  intro d hd
  obtain ⟨p, q, rfl, hp, hq⟩ := mb_inShape_append_split hd
  rw [hget p q hp hq]
  simp [← hp.length_eq]

theorem dotLhsTile_x1 (sa : Shape) (k : Nat) : dotLhsTile sa [k] = List.replicate sa.length 1 := by simp [dotLhsTile]
theorem dotLhsTile_x2 (ba bb : List Nat) (k k' n : Nat) :
    dotLhsTile (ba ++ [k]) (bb ++ [k', n]) = List.replicate ba.length 1 ++ [n] := by
  simp only [dotLhsTile, List.length_append, List.length_cons, List.length_nil, getNeg?_append_two_1]
  rw [if_pos (by omega), show ba.length + (0 + 1) = ba.length + 1 by omega, List.replicate_succ']
  simp
theorem dotRhsTranspose_1 (k : Nat) : dotRhsTranspose [k] = [0] := by simp [dotRhsTranspose, List.range_succ]
theorem dotRhsTranspose_2 (bb : List Nat) (k n : Nat) :
    dotRhsTranspose (bb ++ [k, n]) = List.range bb.length ++ [bb.length + 1, bb.length] := by
  simp only [dotRhsTranspose, List.length_append, List.length_cons, List.length_nil]
  rw [if_pos (by omega), show bb.length + (0 + 1 + 1) = bb.length + 2 by omega, swapLast2_range]
theorem dotLhsReshape_x1 (ba : List Nat) (k k' : Nat) : dotLhsReshape (ba ++ [k]) [k'] = some (ba ++ [k']) := by
  have h1 : getNeg? [k'] 1 = some k' := getNeg?_append_one [] k'
  simp only [dotLhsReshape, List.length_append, List.length_cons, List.length_nil, h1]
  simp
theorem dotLhsReshape_x2 (ba bb : List Nat) (k k' n : Nat) :
    dotLhsReshape (ba ++ [k]) (bb ++ [k', n]) = some (ba ++ List.replicate bb.length 1 ++ [n, k']) := by
  simp only [dotLhsReshape, List.length_append, List.length_cons, List.length_nil, getNeg?_append_two_1, getNeg?_append_two_2]
  simp
  have e : (if ba.length + 1 + (bb.length + 2) - 2 < ba.length + 1 ∨ ba.length + 1 + (bb.length + 2) < 2 then ba.length + 1
      else ba.length + 1 + (bb.length + 2) - 2) + 1 - ba.length = bb.length + 2 := by
    split <;> omega
  rw [e]
  refine ⟨by omega, ?_⟩
  have e2 : List.replicate (bb.length + 2) 1 = List.replicate bb.length 1 ++ [1, 1] := by
    rw [List.replicate_succ', List.replicate_succ']; simp
  rw [e2, ← List.append_assoc, setNeg_append_two_2, setNeg_append_two_1]
  simp

theorem tile_last_shape (ba : List Nat) (k n : Nat) :
    shapeTile (ba ++ [k]) (List.replicate ba.length 1 ++ [n]) = ba ++ [k * n] := by
  rw [shapeTile_eq_length _ _ (by simp), List.zipWith_append (by simp), zipWith_mul_replicate_one]
  simp

/-- lhs of `dot` for a rhs of rank ≥ 2: `reshape(tile(lhs, (1,…,1,n)), (…, 1,…,1, n, k))` at `[p…, 0…0, j, kk]` is `lhs[p…, kk]` -/
theorem dot_lhs (ba : List Nat) (o k n : Nat) :
    ∃ a, reshape (tile (ident (ba ++ [k])) (List.replicate ba.length 1 ++ [n])) (ba ++ List.replicate o 1 ++ [n, k]) = some a ∧
      a.shape = ba ++ List.replicate o 1 ++ [n, k] ∧
      ∀ p j kk, InShape p ba → j < n → kk < k → a.get (p ++ List.replicate o 0 ++ [j, kk]) = p ++ [kk] := by
  have hp : prod (tile (ident (ba ++ [k])) (List.replicate ba.length 1 ++ [n])).shape = prod (ba ++ List.replicate o 1 ++ [n, k]) := by
    simp only [tile, ident, tile_last_shape, prod_append, prod_two, prod_one', prod_ones]
    rw [Nat.mul_comm k n]; simp
  rw [reshape_some _ _ hp]
  refine ⟨_, rfl, rfl, ?_⟩
  intro p j kk hp' hj hkk
  simp only [tile, ident, tile_last_shape, id]
  have hlt : j * k + kk < k * n := by
    calc j * k + kk < j * k + k := by omega
      _ = (j + 1) * k := by rw [Nat.add_mul]; simp
      _ ≤ n * k := Nat.mul_le_mul_right k (by omega)
      _ = k * n := Nat.mul_comm n k
  have hin : InShape (p ++ [j * k + kk]) (ba ++ [k * n]) := by
    rw [inShape_append hp'.length_eq]; exact ⟨hp', by simpa [InShape] using hlt⟩
  have hoff : computeOffset (p ++ [j * k + kk]) (strides (ba ++ [k * n])) =
      computeOffset (p ++ List.replicate o 0 ++ [j, kk]) (strides (ba ++ List.replicate o 1 ++ [n, k])) := by
    rw [offset_append _ _ _ _ hp'.length_eq]
    rw [List.append_assoc, List.append_assoc, offset_append _ _ _ _ hp'.length_eq]
    rw [offset_append _ _ _ _ (by simp), computeOffset_zeros]
    simp only [prod_append, prod_ones, prod_two, prod_one', strides, prod, computeOffset, Nat.mul_one, Nat.add_zero, Nat.one_mul,
      Nat.zero_mul, Nat.zero_add]
    rw [Nat.mul_comm k n, Nat.mul_comm k j]
  rw [ndindex_of_offset_eq hin hoff]
  rw [tileIdx_append (β := p) (τ := [j * k + kk]) (s := ba) (t := [k]) (by simp) (by rw [hp'.length_eq]; exact Nat.le_refl _)]
  rw [tileIdx_self hp']
  simp only [tileIdx, List.length_cons, List.length_nil, Nat.sub_self, List.drop_zero, List.zipWith_cons_cons, List.zipWith_nil_right]
  rw [Nat.mul_comm j k, Nat.mul_add_mod, Nat.mod_eq_of_lt hkk]

/-- `dot` with a rhs of rank ≥ 2 -/
theorem dot_elem_x2 (ba bb : Shape) (k n : Nat) (hpb : Pos bb) (hn : 0 < n) :
    ∃ r, dot (ba ++ [k]) (bb ++ [k, n]) = some r ∧ r.shape = ba ++ bb ++ [n] ∧
      ∀ p q j, InShape p ba → InShape q bb → j < n →
        r.get (p ++ q ++ [j]) = (List.range k).map (fun kk => (p ++ [kk], q ++ [kk, j])) := by
  obtain ⟨a, ha, hash, haget⟩ := dot_lhs ba bb.length k n
  have hb := transpose_swap_last2 (ident (bb ++ [k, n])) bb k n rfl
  have hX : broadcastShape (ba ++ List.replicate bb.length 1 ++ [n]) (bb ++ [n]) = some (ba ++ bb ++ [n]) := by
    rw [broadcastShape_append_one, bc1_self]
    simp only
    rw [broadcastShape_ones_right ba bb.length bb rfl hpb]; simp
  obtain ⟨r, hr, hrsh, hrget⟩ := contract_last a
    ⟨bb ++ [n, k], fun d => (ident (bb ++ [k, n])).get (scatter d (List.range bb.length ++ [bb.length + 1, bb.length]))⟩
    (ba ++ List.replicate bb.length 1 ++ [n]) (bb ++ [n]) (ba ++ bb ++ [n]) k (by rw [hash]; simp) (by simp) hX
  refine ⟨r, ?_, hrsh, ?_⟩
  · unfold dot
    simp only [dotLhsTile_x2, dotLhsReshape_x2, dotRhsTranspose_2, Option.bind_eq_bind, Option.pure_def, Option.bind_some]
    rw [ha]; simp only [Option.bind_some]
    rw [hb]; simp only [Option.bind_some]
    exact mulT_sumLast hr
  · intro p q j hp hq hj
    rw [hrget (p ++ q ++ [j]) (by simp [hp.length_eq, hq.length_eq])]
    apply List.map_congr_left
    intro kk hkk
    have hkk' := List.mem_range.1 hkk
    have hj1 : bcIdx [j] [n] = [j] := bcIdx_single hj
    rw [bcIdx_append (β := p ++ q) (τ := [j]) (s := ba ++ List.replicate bb.length 1) (t := [n]) (by simp) (by simp [hp.length_eq, hq.length_eq]),
        bcIdx_append (β := p ++ q) (τ := [j]) (s := bb) (t := [n]) (by simp) (by simp [hq.length_eq]), hj1]
    rw [bcIdx_append (β := p) (τ := q) (s := ba) (t := List.replicate bb.length 1) (by simp [hq.length_eq]) (by rw [hp.length_eq]; exact Nat.le_refl _)]
    rw [bcIdx_self hp, ← hq.length_eq, bcIdx_ones, bcIdx_drop_prefix p q bb hq.length_eq, bcIdx_self hq, hq.length_eq]
    have e1 : p ++ List.replicate bb.length 0 ++ [j] ++ [kk] = p ++ List.replicate bb.length 0 ++ [j, kk] := by simp
    have e2 : q ++ [j] ++ [kk] = q ++ [j, kk] := by simp
    rw [e1, e2, haget p j kk hp hj hkk']
    simp only [ident, id]
    rw [← hq.length_eq, scatter_swap_last2]

/-- `dot` with a 1-d rhs -/
theorem dot_elem_x1 (ba : Shape) (k : Nat) :
    ∃ r, dot (ba ++ [k]) [k] = some r ∧ r.shape = ba ∧
      ∀ p, InShape p ba → r.get p = (List.range k).map (fun kk => (p ++ [kk], [kk])) := by
  obtain ⟨a, ha, hash, haget⟩ := matmulV2_lhs_plain (ba ++ [k])
  have hb := transpose_range (ident [k])
  simp only [ident, List.length_cons, List.length_nil, List.range_succ, List.range_zero, List.nil_append] at hb
  obtain ⟨r, hr, hrsh, hrget⟩ := contract_last a ⟨[k], fun d => id (scatter d [0])⟩ ba [] ba k (by rw [hash]) rfl (by simp)
  refine ⟨r, ?_, hrsh, ?_⟩
  · unfold dot
    simp only [dotLhsTile_x1, dotLhsReshape_x1, dotRhsTranspose_1, Option.bind_eq_bind, Option.pure_def, Option.bind_some]
    rw [ha]; simp only [Option.bind_some]
    have hb' : transpose (ident [k]) [0] = some ⟨[k], fun d => id (scatter d [0])⟩ := hb
    rw [hb']; simp only [Option.bind_some]
    exact mulT_sumLast hr
  · intro p hp
    rw [hrget p hp.length_eq]
    apply List.map_congr_left
    intro kk hkk
    have hkk' := List.mem_range.1 hkk
    rw [bcIdx_self hp, haget (p ++ [kk]) (by rw [inShape_append hp.length_eq]; exact ⟨hp, by simpa [InShape] using hkk'⟩)]
    simp [scatter]

/-- `view::dot` = `np.dot` -/
theorem dot_eq_spec (sa sb : Shape) (s : Arr (List Term)) (ha : 1 ≤ sa.length) (hb : 1 ≤ sb.length) (hpb : Pos sb)
    (hacc : specDot sa sb = some s) :
    ∃ r, dot sa sb = some r ∧ r.shape = s.shape ∧ ∀ d, InShape d s.shape → r.get d = s.get d := by
  obtain ⟨ba, k, rfl⟩ := exists_append_one sa ha
  by_cases hb2 : 2 ≤ sb.length
  · obtain ⟨bb, k', n, rfl⟩ := exists_append_two sb hb2
    have hk : k = k' := by
      simp [specDot] at hacc
      by_cases h : k = k'
      · exact h
      · simp [h] at hacc
    subst hk
    simp [specDot] at hacc
    subst hacc
    have hpb' := Pos_append.1 hpb
    obtain ⟨r, hr, hsh, hget⟩ := dot_elem_x2 ba bb k n hpb'.1 (hpb'.2 n (by simp))
    refine ⟨r, hr, by simpa using hsh, ?_⟩
    intro d hd
    simp only at hd
    have hd' : InShape d ((ba ++ bb) ++ [n]) := by simpa using hd
    obtain ⟨pq, j, rfl, hpq, hj⟩ := inShape_append_one hd'
    obtain ⟨p, q, rfl, hp, hq⟩ := mb_inShape_append_split hpq
    rw [hget p q j hp hq hj]
    simp [← hp.length_eq, ← hq.length_eq]
  · obtain ⟨k', rfl⟩ := eq_singleton_of_length hb hb2
    have hk : k = k' := by
      simp [specDot] at hacc
      by_cases h : k = k'
      · exact h
      · simp [h] at hacc
    subst hk
    simp [specDot] at hacc
    subst hacc
    obtain ⟨r, hr, hsh, hget⟩ := dot_elem_x1 ba k
    refine ⟨r, hr, by simpa using hsh, ?_⟩
    intro d hd
    simp only at hd
    have hd' : InShape d ba := by simpa using hd
    rw [hget d hd']
    simp [← hd'.length_eq]

/-- `view::outer` = `np.outer` -/
theorem outer_eq_spec (sa sb : Shape) (hpa : Pos sa) (hpb : Pos sb) :
    ∃ r, outer sa sb = some r ∧ r.shape = (specOuter sa sb).shape ∧
      ∀ d, InShape d (specOuter sa sb).shape → r.get d = (specOuter sa sb).get d := by
  have hP := prod_pos hpa
  have hQ := prod_pos hpb
  have hre : reshape (flatten (ident sa)) [prod sa, 1] = some ⟨[prod sa, 1], fun d =>
      (flatten (ident sa)).get (ndindex [prod sa] (computeOffset d (strides [prod sa, 1])))⟩ :=
    reshape_some _ _ (by simp [flatten, prod, ident])
  have hbc : broadcastShape [prod sa, 1] [prod sb] = some [prod sa, prod sb] := by
    have := broadcastShape_append_one [prod sa] [] 1 (prod sb)
    simp only [List.nil_append, bc1_one_left hQ, broadcastShape_nil_right, Option.map_some] at this
    simpa using this
  unfold outer
  simp only [Option.bind_eq_bind, Option.pure_def]
  rw [hre]; simp only [Option.bind_some]
  simp only [mulT, bcast2, hbc]
  have hfs : (flatten (ident sb)).shape = [prod sb] := rfl
  simp only [hfs, hbc]
  refine ⟨_, rfl, ?_, ?_⟩
  · simp [specOuter]
  · intro d hd
    simp only [specOuter] at hd
    match d, hd with
    | [x, y], hd =>
      simp only [InShape, and_true] at hd
      simp only [specOuter]
      have h1 : bcIdx [x, y] [prod sa, 1] = [x, 0] := by
        simp only [bcIdx, List.length_cons, List.length_nil, Nat.sub_self, List.drop_zero, List.zipWith_cons_cons,
          List.zipWith_nil_right, if_true]
        by_cases h : prod sa = 1
        · simp [h]; omega
        · simp [h]
      have h2 : bcIdx [x, y] [prod sb] = [y] := by
        have := bcIdx_drop_prefix [x] [y] [prod sb] rfl
        simp only [List.singleton_append] at this
        rw [this, bcIdx_single hd.2]
      simp only [h1, h2, flatten, ident, id]
      have h3 : ndindex [prod sa] (computeOffset [x, 0] (strides [prod sa, 1])) = [x] := by
        apply ndindex_of_offset_eq (by simpa [InShape] using hd.1)
        simp [strides, prod, computeOffset]
      rw [h3]; rfl
    | [], hd => simp [InShape] at hd
    | [_], hd => simp [InShape] at hd
    | _ :: _ :: _ :: _, hd => simp [InShape] at hd

end NmVerif
