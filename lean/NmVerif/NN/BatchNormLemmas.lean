import NmVerif.NN.NormLemmas
/-
  NN/BatchNormLemmas — per-channel parameters of batch_norm (`atleast_nd(·,3)` + `moveaxis(·,−1,−3)` = shape `[C,1,1]`)
  broadcast against a rank-4 input.
-/
namespace NmVerif.NN
open NmVerif.Reduce
variable {α : Type}

/-- `bcRev` against a shorter (or equally long) partner that is pointwise "equal or 1" -/
theorem bcRev_dom_le : ∀ (a b : List Nat), b.length ≤ a.length →
    (∀ (k x y : Nat), a[k]? = some x → b[k]? = some y → 0 < x ∧ (y = x ∨ y = 1)) → bcRev a b = some a := by
  intro a
  induction a with
  | nil => intro b hl _; cases b with
    | nil => rfl
    | cons _ _ => simp at hl
  | cons x xs ih =>
    intro b hl h
    cases b with
    | nil => rfl
    | cons y ys =>
      obtain ⟨hx, hy⟩ := h 0 x y rfl rfl
      have hb : bc1 x y = some x := by
        unfold bc1
        rcases hy with rfl | rfl
        · simp
        · by_cases h1 : x = 1
          · subst h1; simp
          · have : x > 1 := by omega
            simp [this]
      simp only [bcRev, hb]
      rw [ih ys (by simpa using hl) (fun k x' y' h1 h2 => h (k + 1) x' y' (by simpa using h1) (by simpa using h2))]
      rfl

theorem bshape_chan (N C H W : Nat) (hN : 0 < N) (hC : 0 < C) (hH : 0 < H) (hW : 0 < W) :
    broadcastShape2 [N, C, H, W] [C, 1, 1] = some [N, C, H, W] := by
  unfold broadcastShape2
  rw [bcRev_dom_le]
  · simp
  · simp
  · intro k x y h1 h2
    match k with
    | 0 => simp at h1 h2; subst h1; subst h2; exact ⟨hW, Or.inr rfl⟩
    | 1 => simp at h1 h2; subst h1; subst h2; exact ⟨hH, Or.inr rfl⟩
    | 2 => simp at h1 h2; subst h1; subst h2; exact ⟨hC, Or.inl rfl⟩
    | k + 3 => simp at h2

theorem sbi_chan (C n c h w : Nat) (hc : c < C) : specBroadcastIdx [C, 1, 1] [n, c, h, w] = [c, 0, 0] := by
  simp [specBroadcastIdx]
  omega

/-- a rank-1 parameter `[C]` through `atleast_nd(·, 3)` and `moveaxis(·, −1, −3)`: shape `[C, 1, 1]`, element
    `[c, 0, 0]` is `p[c]` -/
theorem chanParam3 (p : Arr α) (C : Nat) (hp : p.shape = [C]) :
    ∃ q, chanParam p 3 = some q ∧ q.shape = [C, 1, 1] ∧ ∀ c, c < C → q.get [c, 0, 0] = some (p.get [c]) := by
  refine ⟨⟨[C, 1, 1], fun d => some (p.get (ndindex [C] (computeOffset (Linalg.scatter d [2, 0, 1]) (strides [1, 1, C]))))⟩, ?_, rfl, ?_⟩
  · have hr : List.range 2 = [0, 1] := by decide
    simp [chanParam, atleastNd, moveLast, moveLastOrder, lift, hp, Linalg.reshape, Linalg.transpose, prod, hr]
  · intro c hc
    simp [Linalg.scatter, ndindex, computeIndices, computeOffset, strides, prod, Nat.mod_eq_of_lt hc]

/-- binary ufunc of a rank-4 view with a `[C,1,1]` parameter view: the parameter of the element's channel -/
theorem bin_chan (f : α → α → α) (a q : OArr α) (g : Nat → α) (N C H W : Nat)
    (hN : 0 < N) (hC : 0 < C) (hH : 0 < H) (hW : 0 < W) (ha : a.shape = [N, C, H, W]) (hq : q.shape = [C, 1, 1])
    (hg : ∀ c, c < C → q.get [c, 0, 0] = some (g c)) :
    ∃ u, bin f a q = some u ∧ u.shape = [N, C, H, W] ∧ ∀ n c h w, n < N → c < C → h < H → w < W →
      u.get [n, c, h, w] = (a.get [n, c, h, w]).map (f · (g c)) := by
  have hpa : Pos a.shape := by rw [ha]; intro z hz; simp at hz; rcases hz with rfl | rfl | rfl | rfl <;> assumption
  have hpq : Pos q.shape := by rw [hq]; intro z hz; simp at hz; rcases hz with rfl | rfl <;> omega
  obtain ⟨u, h1, h2, h3⟩ := bin_spec f a q [N, C, H, W] hpa hpq (by rw [ha, hq]; exact bshape_chan N C H W hN hC hH hW)
  refine ⟨u, h1, h2, fun n c h w hn hc hh hw => ?_⟩
  have hin : InShape [n, c, h, w] [N, C, H, W] := by simp [InShape]; exact ⟨hn, hc, hh, hw⟩
  rw [h3 _ hin, ha, sbi_self _ _ hin, hq, sbi_chan C n c h w hc, hg c hc, optOp_some_right]

end NmVerif.NN
