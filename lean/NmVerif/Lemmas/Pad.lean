import NmVerif.Index.Pad
import NmVerif.Lemmas.SelCommon
/-
  SPEC of constant padding (documented definition of view::pad = np.pad(mode='constant') with the widths given
  as `before ++ after`) and proofs that the MODEL meets it.
-/
namespace NmVerif.Index

/-- result shape: `s[k] + before[k] + after[k]` -/
def padShapeSpec (s before after : List Nat) : Shape :=
  List.zipWith (· + ·) (List.zipWith (· + ·) s before) after

/-- `d` lies in the copy of the source placed at offset `before` -/
def InBox : Idx → Shape → List Nat → Prop
  | [], [], [] => True
  | i :: d, s :: ss, b :: bs => (b ≤ i ∧ i < b + s) ∧ InBox d ss bs
  | _, _, _ => False

instance decInBox : (d : Idx) → (s : Shape) → (b : List Nat) → Decidable (InBox d s b)
  | [], [], [] => isTrue trivial
  | i :: d, s :: ss, b :: bs =>
      match (inferInstance : Decidable (b ≤ i ∧ i < b + s)), decInBox d ss bs with
      | isTrue h1, isTrue h2 => isTrue ⟨h1, h2⟩
      | isFalse h1, _ => isFalse (fun h => h1 h.1)
      | _, isFalse h2 => isFalse (fun h => h2 h.2)
  | [], _ :: _, _ => isFalse (fun h => h)
  | [], [], _ :: _ => isFalse (fun h => h)
  | _ :: _, [], _ => isFalse (fun h => h)
  | _ :: _, _ :: _, [] => isFalse (fun h => h)

/-- reference element map: inside the box the source element at `d - before`, outside the fill value -/
def padIdxSpec (d : Idx) (s before : List Nat) : Option Idx :=
  if InBox d s before then some (List.zipWith (· - ·) d before) else none

theorem shapePad_eq_spec (s before after : List Nat) (hb : before.length = s.length) (ha : after.length = s.length) :
    shapePad s (before ++ after) = some (padShapeSpec s before after) := by
  have h : 2 * s.length = (before ++ after).length := by simp; omega
  simp only [shapePad, h, if_true, padShapeSpec]
  rw [← hb]
  simp

theorem shapePad_none (s w : List Nat) (h : 2 * s.length ≠ w.length) : shapePad s w = none := by
  simp [shapePad, h]

theorem indexPadLoop_eq_spec (d : Idx) (s before rest : List Nat) (hd : d.length = s.length) (hb : before.length = s.length) :
    indexPadLoop d s (before ++ rest) = padIdxSpec d s before := by
  induction d generalizing s before with
  | nil =>
    cases s with
    | nil => cases before with
      | nil => simp [indexPadLoop, padIdxSpec, InBox]
      | cons _ _ => simp at hb
    | cons _ _ => simp at hd
  | cons i d ih =>
    cases s with
    | nil => simp at hd
    | cons a ss =>
      cases before with
      | nil => simp at hb
      | cons b bs =>
        simp only [List.cons_append, indexPadLoop, padIdxSpec, InBox]
        have := ih ss bs (by simpa using hd) (by simpa using hb)
        rw [this]
        by_cases h1 : i < b ∨ a + b ≤ i
        · have : ¬ (b ≤ i ∧ i < b + a) := by omega
          simp [h1, this]
        · have h2 : (b ≤ i ∧ i < b + a) := by omega
          simp only [h1, if_false, padIdxSpec, h2, true_and]
          by_cases h3 : InBox d ss bs <;> simp [h3]

theorem inBox_sub_inShape (d : Idx) (s before : List Nat) (h : InBox d s before) :
    InShape (List.zipWith (· - ·) d before) s := by
  induction d generalizing s before with
  | nil =>
    cases s <;> cases before <;> simp_all [InBox, InShape]
  | cons i d ih =>
    cases s with
    | nil => cases before <;> simp [InBox] at h
    | cons a ss =>
      cases before with
      | nil => simp [InBox] at h
      | cons b bs =>
        simp only [InBox] at h
        simp only [List.zipWith_cons_cons, InShape]
        exact ⟨by omega, ih ss bs h.2⟩

end NmVerif.Index
