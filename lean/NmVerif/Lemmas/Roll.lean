import NmVerif.Index.Roll
import NmVerif.Lemmas.SelCommon
import NmVerif.Lemmas.Addressing
/-
  SPEC of np.roll and proofs that the MODEL meets it on the domain `|shift| ≤ extent` (single wrap).
  NumPy: `np.roll(a, shift, axis=k)[…, x, …] = a[…, (x - shift) mod n, …]` (`n` the extent; Python's non-negative mod);
         axis None rolls the flattened array and restores the shape.
-/
namespace NmVerif.Index

/-- NumPy: source position of destination position `x` on an axis of extent `n` rolled by `shift` -/
def rollSrc (n x : Nat) (shift : Int) : Nat := (((x : Int) - shift) % (n : Int)).toNat

theorem rollSrc_lt (n x : Nat) (shift : Int) (hn : 0 < n) : rollSrc n x shift < n := by
  unfold rollSrc
  have h1 := Int.emod_nonneg ((x : Int) - shift) (by omega : (n : Int) ≠ 0)
  have h2 := Int.emod_lt_of_pos ((x : Int) - shift) (by omega : (0 : Int) < n)
  omega

/-- a single wrap is the full modulo as long as `|shift| ≤ n` -/
theorem normalizeRollIndex_eq (n x : Nat) (shift : Int) (hx : x < n) (h1 : -(n : Int) ≤ shift) (h2 : shift ≤ n) :
    normalizeRollIndex ((x : Int) - shift) n = ((x : Int) - shift) % (n : Int) := by
  unfold normalizeRollIndex
  by_cases c1 : (x : Int) - shift < 0
  · simp only [c1, if_true]
    rw [← Int.add_emod_left (n : Int) ((x : Int) - shift)]
    exact (Int.emod_eq_of_lt (by omega) (by omega)).symm
  · simp only [c1, if_false]
    by_cases c2 : (n : Int) ≤ (x : Int) - shift
    · simp only [c2, if_true]
      rw [← Int.sub_emod_right ((x : Int) - shift) (n : Int)]
      exact (Int.emod_eq_of_lt (by omega) (by omega)).symm
    · simp only [c2, if_false]
      exact (Int.emod_eq_of_lt (by omega) (by omega)).symm

theorem i2u_normalizeRollIndex (n x : Nat) (shift : Int) (hx : x < n) (h1 : -(n : Int) ≤ shift) (h2 : shift ≤ n) :
    i2u (normalizeRollIndex ((x : Int) - shift) n) = rollSrc n x shift := by
  rw [normalizeRollIndex_eq n x shift hx h1 h2, i2u_of_nonneg _ (Int.emod_nonneg _ (by omega))]
  rfl

theorem normalizeAxis1_some (axis : Int) (n k : Nat) (h : normalizeAxis1 axis n = some k) :
    k < n ∧ posPy n axis = some k := by
  unfold normalizeAxis1 at h
  split at h
  · simp at h
  · rename_i hr
    split at h
    · rename_i hneg
      simp only [Option.some.injEq] at h
      subst h
      refine ⟨by omega, ?_⟩
      rw [posPy_neg n axis hneg (by omega)]
    · rename_i hneg
      simp only [Option.some.injEq] at h
      subst h
      refine ⟨by omega, ?_⟩
      have : ¬ axis < 0 := hneg
      simp [posPy, this]

theorem normalizeAxis1_none (axis : Int) (n : Nat) (h : axis < -(n : Int) ∨ (n : Int) ≤ axis) :
    normalizeAxis1 axis n = none := by
  simp [normalizeAxis1, h]

/-- one accepted axis: the loop writes `rollSrc` at the normalised position -/
theorem indexRollU_single (s : Shape) (d : Idx) (shift axis : Int) (k : Nat)
    (hk : normalizeAxis1 axis s.length = some k) (hd : InShape d s)
    (h1 : -(s[k]'(normalizeAxis1_some axis _ k hk).1 : Int) ≤ shift)
    (h2 : shift ≤ (s[k]'(normalizeAxis1_some axis _ k hk).1 : Int)) :
    indexRollU s d [shift] [axis] = some (d.set k (rollSrc (s[k]'(normalizeAxis1_some axis _ k hk).1) (d[k]'(by
      have := hd.length_eq; have := (normalizeAxis1_some axis _ k hk).1; omega)) shift)) := by
  obtain ⟨hkn, hpos⟩ := normalizeAxis1_some axis _ k hk
  have hl := hd.length_eq
  have hkd : k < d.length := by omega
  have hxk : d[k] < s[k] := ((inShape_iff_forall _ _).1 hd).2 k hkd hkn
  simp only [indexRollU, indexRollLoop, atPy, hpos, hl, Option.bind_some]
  simp only [List.getElem?_eq_getElem hkn, List.getElem?_eq_getElem hkd, setPy, hl, hpos]
  rw [i2u_normalizeRollIndex s[k] d[k] shift hxk h1 h2]

end NmVerif.Index
