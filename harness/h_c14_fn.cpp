// C14 harness (b): functors of array/functional called with attributes and operands — all at once and curried in
// every split, attributes bound before or after the first operand — against the corresponding view call.
//   c14_fn name=<functor> shapes=<s0;s1;..> <attributes> [data=prov|cond|float]
//     -> ok shape=<> data=<direct view, evaluated> splits=<number of call forms tried> agree=<how many equal the view exactly>
// One source, several TUs (-DC14_FN_GROUP=n).
#include "nmtools/array/functional.hpp"
#include "nmtools/array/functional/transpose.hpp"
#include "nmtools/array/functional/flip.hpp"
#include "nmtools/array/functional/tile.hpp"
#include "nmtools/array/functional/repeat.hpp"
#include "nmtools/array/functional/expand_dims.hpp"
#include "nmtools/array/functional/squeeze.hpp"
#include "nmtools/array/functional/flatten.hpp"
#include "nmtools/array/functional/moveaxis.hpp"
#include "nmtools/array/functional/atleast_2d.hpp"
#include "nmtools/array/functional/reshape.hpp"
#include "nmtools/array/functional/broadcast_to.hpp"
#include "nmtools/array/functional/concatenate.hpp"
#include "nmtools/array/functional/hstack.hpp"
#include "nmtools/array/functional/vstack.hpp"
#include "nmtools/array/functional/where.hpp"
#include "nmtools/array/functional/ufuncs/add.hpp"
#include "nmtools/array/functional/ufuncs/multiply.hpp"
#include "nmtools/array/functional/ufuncs/subtract.hpp"
#include "nmtools/array/functional/ufuncs/maximum.hpp"
#include "nmtools/array/functional/ufuncs/negative.hpp"
#include "nmtools/array/functional/ufuncs/divide.hpp"
#include "nmtools/array/functional/ufuncs/tanh.hpp"
#include "nmtools/array/functional/ufuncs/exp.hpp"
#include "nmtools/array/functional/matmul.hpp"
#include "nmtools/array/functional/sum.hpp"
#include "nmtools/array/functional/prod.hpp"
#include "nmtools/array/functional/cumsum.hpp"
#include "nmtools/array/functional/cumprod.hpp"
#include "nmtools/array/functional/mean.hpp"
#include "nmtools/array/functional/var.hpp"
#include "nmtools/array/functional/stddev.hpp"
#include "nmtools/array/functional/softmax.hpp"
#include "nmtools/array/functional/softmin.hpp"
#include "nmtools/array/functional/pooling.hpp"
#include "nmtools/array/functional/activations/relu.hpp"
#include "nmtools/array/functional/activations/sigmoid.hpp"
#include "nmtools/array/eval.hpp"
#include "nmtools/array/index/ndindex.hpp"
#include "nmtools/array/ndarray.hpp"
#include "proto.hpp"
#include <vector>
#include <string>
#include <cstring>

namespace nm = nmtools; namespace na = nmtools::array; namespace fn = nmtools::functional;
namespace view = nmtools::view; namespace meta = nmtools::meta; namespace ix = nmtools::index;
using namespace proto;

#ifndef C14_FN_GROUP
#error "C14_FN_GROUP not set"
#endif

template <typename T> using arr_of = na::ndarray_t<std::vector<T>, std::vector<size_t>>;

template <typename T> static arr_of<T> make_leaf(const uvec& shape, size_t j, const std::string& data) {
    arr_of<T> a; a.resize(shape);
    size_t n = 1; for (auto e : shape) n *= e;
    for (size_t k = 0; k < n; k++) {
        if (data == "cond" && j == 0) a.data()[k] = (T)(k % 3 != 1);
        else if (data == "float") a.data()[k] = (T)(0.25 * (double)((k * 7 + 3 * j) % 11) - 1.0);
        else if (data == "fpos") a.data()[k] = (T)(0.25 * (double)((k * 7 + 3 * j) % 11));
        else a.data()[k] = (T)(k + 1000 * j);
    }
    return a;
}
template <typename T> static std::vector<arr_of<T>> make_leaves(const Args& a) {
    std::vector<arr_of<T>> l; std::string data = has(a, "data") ? get(a, "data") : "prov";
    auto shapes = int_lists(a, "shapes");
    for (size_t j = 0; j < shapes.size(); j++) { uvec s; for (auto v : shapes[j]) s.push_back((size_t)v); l.push_back(make_leaf<T>(s, j, data)); }
    return l;
}

struct evald { bool ok = false; uvec shape; std::vector<double> data; };
template <typename T> static void dump(const T& x, evald& e) {
    auto s = nm::shape(x);
    for (size_t i = 0; i < (size_t)nm::len(s); i++) e.shape.push_back((size_t)nm::at(s, i));
    size_t n = 1; for (auto d : e.shape) n *= d;
    auto nd = ix::ndindex(e.shape);
    for (size_t k = 0; k < n; k++) e.data.push_back((double)nm::apply_at(x, nd[k]));
    e.ok = true;
}
template <typename V> static evald evaluate(const V& v) {
    evald e;
    if constexpr (meta::is_maybe_v<V>) { if (!nm::has_value(v)) return e; return evaluate(*v); }
    else {
        auto r = na::eval(v);
        if constexpr (meta::is_maybe_v<decltype(r)>) { if (!nm::has_value(r)) return e; auto u = nm::unwrap(r); dump(u, e); }
        else if constexpr (meta::is_num_v<decltype(r)>) { e.ok = true; e.data.push_back((double)r); }
        else dump(r, e);
        return e;
    }
}
static bool same(const evald& a, const evald& b) {
    if (a.ok != b.ok || a.shape != b.shape || a.data.size() != b.data.size()) return false;
    return a.data.empty() || std::memcmp(a.data.data(), b.data.data(), a.data.size() * sizeof(double)) == 0;   // bit-exact
}
static std::string fmtd(const std::vector<double>& d) {
    if (d.empty()) return "[]";
    std::string s; char buf[64];
    for (size_t i = 0; i < d.size(); i++) { snprintf(buf, sizeof buf, "%.12g", d[i]); s += (i ? "," : ""); s += buf; }
    return s;
}
static std::string report(const evald& direct, const std::vector<evald>& forms) {
    if (!direct.ok) return "nothing";
    size_t agree = 0; for (auto& f : forms) agree += same(direct, f);
    return "ok shape=" + fmt(direct.shape) + " data=" + fmtd(direct.data) + " splits=" + std::to_string(forms.size()) + " agree=" + std::to_string(agree);
}

// f0 = the bare functor, bind = [](auto f){ return f[attr1][attr2]; } (identity when there are no attributes)
template <typename F, typename B, typename V, typename A0>
static std::string forms1(const F& f0, const B& bind, const V& direct, const A0& a0) {
    std::vector<evald> r;
    r.push_back(evaluate(bind(f0)(a0)));
    return report(evaluate(direct), r);
}
template <typename F, typename B, typename V, typename A0, typename A1>
static std::string forms2(const F& f0, const B& bind, const V& direct, const A0& a0, const A1& a1) {
    std::vector<evald> r;
    r.push_back(evaluate(bind(f0)(a0, a1)));
    r.push_back(evaluate(bind(f0)(a0)(a1)));
    r.push_back(evaluate(bind(f0(a0))(a1)));          // attributes bound after the first operand
    return report(evaluate(direct), r);
}
template <typename F, typename B, typename V, typename A0, typename A1, typename A2>
static std::string forms3(const F& f0, const B& bind, const V& direct, const A0& a0, const A1& a1, const A2& a2) {
    std::vector<evald> r;
    r.push_back(evaluate(bind(f0)(a0, a1, a2)));
    r.push_back(evaluate(bind(f0)(a0)(a1, a2)));
    r.push_back(evaluate(bind(f0)(a0, a1)(a2)));
    r.push_back(evaluate(bind(f0)(a0)(a1)(a2)));
    r.push_back(evaluate(bind(f0(a0))(a1, a2)));
    r.push_back(evaluate(bind(f0(a0, a1))(a2)));
    return report(evaluate(direct), r);
}

#define AXIS ((int)integer(a,"axis"))
#define AXES (intsi(a,"axes"))
#define NOATTR [&](const auto& f){ return f; }
#define ATTR1(x) [&](const auto& f){ return f[x]; }
#define ATTR2(x,y) [&](const auto& f){ return f[x][y]; }
#define ATTR3(x,y,z) [&](const auto& f){ return f[x][y][z]; }
#define ATTR4(x,y,z,w) [&](const auto& f){ return f[x][y][z][w]; }
#define L0 L.at(0)
#define L1 L.at(1)
#define L2 L.at(2)
#define FN1(nm_, f0, bind, direct) if (name == nm_) return forms1(f0, bind, direct, L0);
#define FN2(nm_, f0, bind, direct) if (name == nm_) return forms2(f0, bind, direct, L0, L1);
#define FN3(nm_, f0, bind, direct) if (name == nm_) return forms3(f0, bind, direct, L0, L1, L2);

std::string handle(const std::string& op, const Args& a) {
    if (op != "c14_fn") return "unknown-op";
    auto name = get(a, "name");
#if C14_FN_GROUP == 1
    auto L = make_leaves<int>(a);
    // indexing functors
    { auto axes = has(a,"axes") ? AXES : std::vector<int>{};
      FN1("transpose",   fn::transpose,   ATTR1(axes),  view::transpose(L0, axes)) }
    FN1("flip",        fn::flip,        ATTR1(AXIS),  view::flip(L0, AXIS))
    { auto reps = has(a,"reps") ? nats(a,"reps") : uvec{};
      FN1("tile",        fn::tile,        ATTR1(reps),  view::tile(L0, reps)) }
    if (name == "repeat") { size_t r = (size_t)integer(a,"r"); int axis = AXIS;
      FN1("repeat",      fn::repeat,      ATTR2(r, axis), view::repeat(L0, r, axis)) }
    FN1("expand_dims", fn::expand_dims, ATTR1(AXIS),  view::expand_dims(L0, AXIS))
    FN1("squeeze",     fn::squeeze,     NOATTR,       view::squeeze(L0))
    FN1("flatten",     fn::flatten,     NOATTR,       view::flatten(L0))
    if (name == "moveaxis") { int s = (int)integer(a,"src"), d = (int)integer(a,"dst");
      FN1("moveaxis",    fn::moveaxis,    ATTR2(s, d),  view::moveaxis(L0, s, d)) }
    FN1("atleast_2d",  fn::atleast_2d,  NOATTR,       view::atleast_2d(L0))
    { auto to = has(a,"to") ? intsi(a,"to") : std::vector<int>{};
      FN1("reshape",     fn::reshape,     ATTR1(to),    view::reshape(L0, to)) }
    { auto to = has(a,"to") ? nats(a,"to") : uvec{};
      FN1("broadcast_to",fn::broadcast_to,ATTR1(to),    view::broadcast_to(L0, to)) }
    FN2("concatenate", fn::concatenate, ATTR1(AXIS),  view::concatenate(L0, L1, AXIS))
    FN2("hstack",      fn::hstack,      NOATTR,       view::hstack(L0, L1))
    FN2("vstack",      fn::vstack,      NOATTR,       view::vstack(L0, L1))
    FN3("where",       fn::where,       NOATTR,       view::where(L0, L1, L2))
#elif C14_FN_GROUP == 2
    auto L = make_leaves<int>(a);
    // ufunc / reduce / accumulate / outer / matmul
    FN2("add",         fn::add,         NOATTR,       view::add(L0, L1))
    FN2("multiply",    fn::multiply,    NOATTR,       view::multiply(L0, L1))
    FN2("subtract",    fn::subtract,    NOATTR,       view::subtract(L0, L1))
    FN2("maximum",     fn::maximum,     NOATTR,       view::maximum(L0, L1))
    FN1("negative",    fn::negative,    NOATTR,       view::negative(L0))
    FN1("reduce_add",  fn::reduce_add,  ATTR1(AXIS),  view::reduce_add(L0, AXIS))
    FN1("reduce_add_keep", fn::reduce_add, ATTR4(AXIS, nm::None, nm::None, nm::True), view::reduce_add(L0, AXIS, nm::None, nm::None, nm::True))
    FN1("reduce_maximum", fn::reduce_maximum, ATTR1(AXIS), view::reduce_maximum(L0, AXIS))
    FN1("accumulate_add", fn::accumulate_add, ATTR1(AXIS), view::accumulate_add(L0, AXIS))
    FN2("outer_add",   fn::outer_add,   NOATTR,       view::outer_add(L0, L1))
    FN2("outer_multiply", fn::outer_multiply, NOATTR, view::outer_multiply(L0, L1))
    FN2("matmul",      fn::matmul,      NOATTR,       view::matmul(L0, L1))
    FN1("sum",         fn::sum,         ATTR1(AXIS),  view::sum(L0, AXIS))
    FN1("prod",        fn::prod,        ATTR1(AXIS),  view::prod(L0, AXIS))
    FN1("cumsum",      fn::cumsum,      ATTR1(AXIS),  view::cumsum(L0, AXIS))
    FN1("cumprod",     fn::cumprod,     ATTR1(AXIS),  view::cumprod(L0, AXIS))
#elif C14_FN_GROUP == 3
    auto L = make_leaves<double>(a);
    // floating point: activations, norms, pooling  (view::clip over three dynamic ndarrays does not compile: not covered)
    FN1("tanh",        fn::tanh,        NOATTR,       view::tanh(L0))
    FN1("exp",         fn::exp,         NOATTR,       view::exp(L0))
    FN1("relu",        fn::relu,        NOATTR,       view::relu(L0))
    FN1("sigmoid",     fn::sigmoid,     NOATTR,       view::sigmoid(L0))
    FN2("divide",      fn::divide,      NOATTR,       view::divide(L0, L1))
    FN1("mean",        fn::mean,        ATTR1(AXIS),  view::mean(L0, AXIS))
    FN1("var",         fn::var,         ATTR1(AXIS),  view::var(L0, AXIS))
    FN1("stddev",      fn::stddev,      ATTR1(AXIS),  view::stddev(L0, AXIS))
    FN1("softmax",     fn::softmax,     ATTR1(AXIS),  view::softmax(L0, AXIS))
    FN1("softmin",     fn::softmin,     ATTR1(AXIS),  view::softmin(L0, AXIS))
    if (name == "max_pool2d" || name == "avg_pool2d") { auto k = nats(a,"k"); auto st = nats(a,"st");
      FN1("max_pool2d",  fn::max_pool2d,  ATTR3(k, st, nm::False), view::max_pool2d(L0, k, st, nm::False))
      FN1("avg_pool2d",  fn::avg_pool2d,  ATTR3(k, st, nm::False), view::avg_pool2d(L0, k, st, nm::False)) }
#endif
    return "unknown-name";
}
