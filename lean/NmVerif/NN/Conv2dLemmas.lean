import NmVerif.NN.ConvLemmas
/-
  NN/Conv2dLemmas — the conv2d instance (n_planes = 2) of the convnd pipeline, for per-plane stride / padding /
  dilation given as None, one integer, or a pair `(h, w)`.
-/
namespace NmVerif.NN

/-! ### argument forms at `n_planes = 2` -/

/-- per-plane values `(h, w)` of an optional argument: `None` ↦ default, `v` ↦ `(v, v)`, `[h, w]` ↦ `(h, w)` -/
def vals2 (dflt : Nat) : PArg → Nat × Nat
  | .none => (dflt, dflt)
  | .int v => (v, v)
  | .arr [a, b] => (a, b)
  | .arr _ => (0, 0)

/-- accepted forms: None, an integer, a pair -/
def Form2 (a : PArg) : Prop := a = .none ∨ (∃ v, a = .int v) ∨ (∃ h w, a = .arr [h, w])

/-- accepted forms with positive entries -/
def PosForm2 (a : PArg) : Prop := a = .none ∨ (∃ v, 0 < v ∧ a = .int v) ∨ (∃ h w, 0 < h ∧ 0 < w ∧ a = .arr [h, w])

theorem vals2_pos {a : PArg} (h : PosForm2 a) : 0 < (vals2 1 a).1 ∧ 0 < (vals2 1 a).2 := by
  rcases h with rfl | ⟨v, hv, rfl⟩ | ⟨h, w, hh, hw, rfl⟩ <;> simp [vals2, *]

/-! ### index helpers -/

theorem crw2 (O Cg KH KW g : Nat) : convReshapeWeight [O, Cg, KH, KW] g 2 = [g, O / g, Cg, KH, KW] := by
  simp [convReshapeWeight, setI, getI, posI, List.range, List.range.loop]

theorem cri2 (N C H W g : Nat) : convReshapeInput [N, C, H, W] g 2 = [N, g, 1, C / g, H, W] := by
  simp [convReshapeInput, setI, getI, posI, List.range, List.range.loop]

theorem crr2 (a b c d e : Nat) : convReshapeReduce [a, b, c, d, e] 2 = [a, b * c, d, e] := by
  simp [convReshapeReduce, setI, getI, posI, List.range, List.range.loop]

theorem crb2 (O : Nat) : convReshapeBias [O] 2 = [O, 1, 1] := by
  simp [convReshapeBias, setI, getI, posI, List.range, List.range.loop]

theorem cks2 (a b c d e : Nat) : convKernelSize [a, b, c, d, e] 2 = [e, d] := by
  simp [convKernelSize, getI, posI, List.range, List.range.loop]

theorem cwa2 : convWindowAxis 2 = [-1, -2] := by
  simp [convWindowAxis, List.range, List.range.loop]

theorem csa2 : convSumAxes 2 = [-1, -2, -5] := by
  simp [convSumAxes, convWindowAxis, List.range, List.range.loop]

/-- padding widths for the three forms: `(pH, pW)` before and after on the two plane axes -/
theorem cpad2 {pad : PArg} (h : (∃ v, pad = .int v) ∨ (∃ a b, pad = .arr [a, b])) :
    convPad 6 pad 2 = [0, 0, 0, 0, (vals2 0 pad).1, (vals2 0 pad).2, 0, 0, 0, 0, (vals2 0 pad).1, (vals2 0 pad).2] := by
  rcases h with ⟨v, rfl⟩ | ⟨a, b, rfl⟩ <;> simp [convPad, vals2, List.range, List.range.loop]

/-- expansion spacings for the integer and the pair form: window axis `-1` (W) gets `dW - 1`, axis `-2` (H) gets `dH - 1` -/
theorem cexp2 {dil : PArg} (h : (∃ v, dil = .int v) ∨ (∃ a b, dil = .arr [a, b])) :
    (convWindowAxis 2).zip (convExpandSpacing dil 2) = [(-1, (vals2 1 dil).2 - 1), (-2, (vals2 1 dil).1 - 1)] := by
  rcases h with ⟨v, rfl⟩ | ⟨a, b, rfl⟩ <;> simp [cwa2, convExpandSpacing, vals2, List.range, List.range.loop]

theorem csteps2 {st : PArg} (h : (∃ v, st = .int v) ∨ (∃ a b, st = .arr [a, b])) :
    convSteps st 2 = [(vals2 1 st).1, (vals2 1 st).2] := by
  rcases h with ⟨v, rfl⟩ | ⟨a, b, rfl⟩ <;> simp [convSteps, vals2, List.range, List.range.loop]

/-! ### sums -/

theorem sumTo_add_fn (n : Nat) (f g : Nat → Int) : sumTo n (fun i => f i + g i) = sumTo n f + sumTo n g := by
  induction n with
  | zero => rfl
  | succ n ih => simp only [sumTo, ih]; omega

theorem sumTo_const_zero (n : Nat) : sumTo n (fun _ => 0) = 0 := sumTo_zero (fun _ _ => rfl)

theorem sumTo_comm (n m : Nat) (f : Nat → Nat → Int) :
    sumTo n (fun i => sumTo m (fun j => f i j)) = sumTo m (fun j => sumTo n (fun i => f i j)) := by
  induction n with
  | zero => simp [sumTo, sumTo_const_zero]
  | succ n ih =>
    simp only [sumTo, ih]
    rw [← sumTo_add_fn]

/-- sum over all multi-indices of a rank-3 shape = triple sum -/
theorem listSum_allIdx3 (A B C : Nat) (f : Idx → Int) :
    listSum ((allIdx [A, B, C]).map f) = sumTo A (fun i => sumTo B (fun j => sumTo C (fun k => f [i, j, k]))) := by
  have h : allIdx [A, B, C] = (List.range A).flatMap (fun i => (allIdx [B, C]).map (i :: ·)) := rfl
  rw [h, List.map_flatMap, listSum_flatMap_range]
  apply sumTo_congr; intro i _
  rw [List.map_map]
  exact listSum_allIdx2 B C (fun r => f (i :: r))

/-! ### reshapes as index maps -/

theorem rsh_weight2 {Og g Cg KH KW a b c kh kw : Nat} (ha : a < Og) (hb : b < g) (hc : c < Cg) (hkh : kh < KH) (hkw : kw < KW) :
    reshapeIdx [Og * g, Cg, KH, KW] [g, Og, Cg, KH, KW] [b, a, c, kh, kw] = [b * Og + a, c, kh, kw] := by
  apply reshapeIdx_eq
  · simp only [InShape]; exact ⟨by rw [Nat.mul_comm Og g]; exact lt_mul_of_lt hb ha, hc, hkh, hkw, trivial⟩
  · simp only [computeOffset, strides, prod]; ring

theorem rsh_input2 {N g Cg H W n b c i j : Nat} (hn : n < N) (hb : b < g) (hc : c < Cg) (hi : i < H) (hj : j < W) :
    reshapeIdx [N, g * Cg, H, W] [N, g, 1, Cg, H, W] [n, b, 0, c, i, j] = [n, b * Cg + c, i, j] := by
  apply reshapeIdx_eq
  · simp only [InShape]; exact ⟨hn, lt_mul_of_lt hb hc, hi, hj, trivial⟩
  · simp only [computeOffset, strides, prod]; ring

theorem rsh_reduce2 {N Og g Ho Wo n o i j : Nat} (hOg : 0 < Og) (hn : n < N) (ho : o < Og * g) (hi : i < Ho) (hj : j < Wo) :
    reshapeIdx [N, g, Og, Ho, Wo] [N, Og * g, Ho, Wo] [n, o, i, j] = [n, o / Og, o % Og, i, j] := by
  apply reshapeIdx_eq
  · simp only [InShape]
    exact ⟨hn, div_lt_groups hOg ho, Nat.mod_lt _ hOg, hi, hj, trivial⟩
  · simp only [computeOffset, strides, prod]
    have := Nat.div_add_mod o Og
    calc Og * g * (Ho * (Wo * 1)) * n + (Ho * (Wo * 1) * o + (Wo * 1 * i + (1 * j + 0)))
        = Og * g * Ho * Wo * n + (Ho * Wo * o + (Wo * i + j)) := by ring
      _ = Og * g * Ho * Wo * n + (Ho * Wo * (Og * (o / Og) + o % Og) + (Wo * i + j)) := by rw [this]
      _ = _ := by ring

theorem rsh_bias2 {O o : Nat} (ho : o < O) : reshapeIdx [O] [O, 1, 1] [o, 0, 0] = [o] := by
  apply reshapeIdx_eq
  · simp only [InShape]; exact ⟨ho, trivial⟩
  · simp only [computeOffset, strides, prod]

/-! ### stage 1: the weight -/

def rwArr2 (w : Arr Int) (Og g Cg KH KW : Nat) : Arr Int :=
  ⟨[g, Og, Cg, KH, KW], fun d => w.get (reshapeIdx w.shape [g, Og, Cg, KH, KW] d)⟩

def awArr2 (w : Arr Int) (Og g Cg KH KW : Nat) (dil : PArg) : Arr Int :=
  match dil with
  | .none => rwArr2 w Og g Cg KH KW
  | _ => expandV (rwArr2 w Og g Cg KH KW) (convWindowAxis 2) (convExpandSpacing dil 2)

theorem convWeight2_eq {w : Arr Int} {Og g Cg KH KW : Nat} (hw : w.shape = [Og * g, Cg, KH, KW]) (hg : 0 < g) (dil : PArg) :
    convWeight 2 w dil g = some (awArr2 w Og g Cg KH KW dil) := by
  have hdiv : Og * g / g = Og := Nat.mul_div_cancel _ hg
  have hprod : prod w.shape = prod [g, Og, Cg, KH, KW] := by rw [hw]; simp only [prod]; ring
  have hre := reshapeV_some (a := w) (dst := [g, Og, Cg, KH, KW]) (by simp) hprod
  unfold convWeight
  rw [hw, crw2, hdiv, hre]
  cases dil <;> rfl

theorem dil_arith (K d : Nat) (hK : 0 < K) (hd : 0 < d) : K + (K - 1) * (d - 1) = (K - 1) * d + 1 := by
  obtain ⟨d', rfl⟩ : ∃ d', d = d' + 1 := ⟨d - 1, by omega⟩
  obtain ⟨K', rfl⟩ : ∃ K', K = K' + 1 := ⟨K - 1, by omega⟩
  simp only [Nat.add_sub_cancel]; ring

theorem awArr2_shape {w : Arr Int} {Og g Cg KH KW : Nat} (hKH : 0 < KH) (hKW : 0 < KW) {dil : PArg} (hdil : PosForm2 dil) :
    (awArr2 w Og g Cg KH KW dil).shape = [g, Og, Cg, (KH - 1) * (vals2 1 dil).1 + 1, (KW - 1) * (vals2 1 dil).2 + 1] := by
  rcases hdil with rfl | ⟨d, hd, rfl⟩ | ⟨dh, dw, hh, hw', rfl⟩
  · simp [awArr2, rwArr2, vals2]; omega
  · have e1 := dil_arith KH d hKH hd
    have e2 := dil_arith KW d hKW hd
    simp [awArr2, rwArr2, vals2, expandV, expandShape, cwa2, convExpandSpacing, posI, List.range, List.range.loop, e1, e2]
  · have e1 := dil_arith KH dh hKH hh
    have e2 := dil_arith KW dw hKW hw'
    simp [awArr2, rwArr2, vals2, expandV, expandShape, cwa2, convExpandSpacing, posI, List.range, List.range.loop, e1, e2]

theorem expandIdx_2 (spW spH a b c kh kw : Nat) :
    expandIdx 5 [(-1, spW), (-2, spH)] [a, b, c, kh, kw]
      = if kw % (spW + 1) ≠ 0 then none else (if kh % (spH + 1) ≠ 0 then none else some [a, b, c, kh / (spH + 1), kw / (spW + 1)]) := by
  have p1 : posI 5 (-1) = 4 := by decide
  have p2 : posI 5 (-2) = 3 := by decide
  simp only [expandIdx, p1, p2, List.getD_cons_zero, List.getD_cons_succ, List.set_cons_succ, List.set_cons_zero]

theorem awArr2_get {w : Arr Int} {Og g Cg KH KW : Nat} (hw : w.shape = [Og * g, Cg, KH, KW]) (hKH : 0 < KH) (hKW : 0 < KW)
    {dil : PArg} (hdil : PosForm2 dil) {a b c kh kw : Nat} (ha : a < Og) (hb : b < g) (hc : c < Cg)
    (hkh : kh < (KH - 1) * (vals2 1 dil).1 + 1) (hkw : kw < (KW - 1) * (vals2 1 dil).2 + 1) :
    (awArr2 w Og g Cg KH KW dil).get [b, a, c, kh, kw]
      = if kw % (vals2 1 dil).2 = 0 then
          (if kh % (vals2 1 dil).1 = 0 then w.get [b * Og + a, c, kh / (vals2 1 dil).1, kw / (vals2 1 dil).2] else 0)
        else 0 := by
  have hpos := vals2_pos hdil
  have h1 := div_lt_of_lt_dil hKH hpos.1 hkh
  have h2 := div_lt_of_lt_dil hKW hpos.2 hkw
  have expanded : ∀ (dil : PArg), ((∃ v, dil = .int v) ∨ (∃ a b, dil = .arr [a, b])) →
      0 < (vals2 1 dil).1 → 0 < (vals2 1 dil).2 → kh / (vals2 1 dil).1 < KH → kw / (vals2 1 dil).2 < KW →
      expandGet (rwArr2 w Og g Cg KH KW) (convWindowAxis 2) (convExpandSpacing dil 2) [b, a, c, kh, kw]
        = if kw % (vals2 1 dil).2 = 0 then
            (if kh % (vals2 1 dil).1 = 0 then w.get [b * Og + a, c, kh / (vals2 1 dil).1, kw / (vals2 1 dil).2] else 0)
          else 0 := by
    intro dil hf hp1 hp2 h1 h2
    generalize hdH : (vals2 1 dil).1 = dH at *
    generalize hdW : (vals2 1 dil).2 = dW at *
    have hz := cexp2 hf
    rw [hdH, hdW] at hz
    obtain ⟨dH', rfl⟩ : ∃ d', dH = d' + 1 := ⟨dH - 1, by omega⟩
    obtain ⟨dW', rfl⟩ : ∃ d', dW = d' + 1 := ⟨dW - 1, by omega⟩
    simp only [Nat.add_sub_cancel] at hz
    simp only [expandGet, hz]
    simp only [rwArr2, List.length_cons, List.length_nil, Nat.reduceAdd, Nat.zero_add, expandIdx_2]
    by_cases hm : kw % (dW' + 1) = 0
    · by_cases hm2 : kh % (dH' + 1) = 0
      · simp only [hm, hm2, ne_eq, not_true_eq_false, if_false, if_true, hw]
        rw [rsh_weight2 ha hb hc h1 h2]
      · simp only [hm, hm2, ne_eq, not_true_eq_false, not_false_eq_true, if_false, if_true]
    · simp only [hm, ne_eq, not_false_eq_true, if_true, if_false]
  rcases hdil with rfl | ⟨d, hd, rfl⟩ | ⟨dh, dw, hh, hw', rfl⟩
  · simp only [vals2, Nat.mul_one] at hkh hkw ⊢
    simp only [Nat.mod_one, if_true, Nat.div_one, awArr2, rwArr2, hw]
    rw [rsh_weight2 ha hb hc (by omega) (by omega)]
  · exact expanded (.int d) (Or.inl ⟨d, rfl⟩) hpos.1 hpos.2 h1 h2
  · exact expanded (.arr [dh, dw]) (Or.inr ⟨dh, dw, rfl⟩) hpos.1 hpos.2 h1 h2

/-! ### stage 2: the input -/

def rinArr2 (x : Arr Int) (N g Cg H W : Nat) : Arr Int :=
  ⟨[N, g, 1, Cg, H, W], fun d => x.get (reshapeIdx x.shape [N, g, 1, Cg, H, W] d)⟩

def ainArr2 (x : Arr Int) (N g Cg H W : Nat) (pad : PArg) : Arr Int :=
  match pad with
  | .none => rinArr2 x N g Cg H W
  | _ => ⟨[N, g, 1, Cg, H + (vals2 0 pad).1 + (vals2 0 pad).1, W + (vals2 0 pad).2 + (vals2 0 pad).2],
          padGet (rinArr2 x N g Cg H W) [0, 0, 0, 0, (vals2 0 pad).1, (vals2 0 pad).2]⟩

theorem convInput2_eq {x : Arr Int} {N g Cg H W : Nat} (hx : x.shape = [N, g * Cg, H, W]) (hg : 0 < g) {pad : PArg} (hpad : Form2 pad) :
    convInput 2 x pad g = .ok (ainArr2 x N g Cg H W pad) := by
  have hdiv : g * Cg / g = Cg := Nat.mul_div_cancel_left _ hg
  have hprod : prod x.shape = prod [N, g, 1, Cg, H, W] := by rw [hx]; simp only [prod]; ring
  have hre := reshapeV_some (a := x) (dst := [N, g, 1, Cg, H, W]) (by simp) hprod
  unfold convInput
  rw [hx, cri2, hdiv, hre]
  rcases hpad with rfl | ⟨p, rfl⟩ | ⟨ph, pw, rfl⟩
  · rfl
  · simp only [List.length_cons, List.length_nil, Nat.reduceAdd, Nat.zero_add, padV, cpad2 (Or.inl ⟨p, rfl⟩)]
    simp [ainArr2, vals2, padShape, rinArr2]
  · simp only [List.length_cons, List.length_nil, Nat.reduceAdd, Nat.zero_add, padV, cpad2 (Or.inr ⟨ph, pw, rfl⟩)]
    simp [ainArr2, vals2, padShape, rinArr2]

theorem ainArr2_shape {x : Arr Int} {N g Cg H W : Nat} {pad : PArg} (hpad : Form2 pad) :
    (ainArr2 x N g Cg H W pad).shape = [N, g, 1, Cg, H + 2 * (vals2 0 pad).1, W + 2 * (vals2 0 pad).2] := by
  rcases hpad with rfl | ⟨p, rfl⟩ | ⟨ph, pw, rfl⟩
  · simp [ainArr2, rinArr2, vals2]
  · simp [ainArr2, vals2]; omega
  · simp [ainArr2, vals2]; omega

theorem padIdx_2d {N g Cg H W pH pW n b c i j : Nat} (hn : n < N) (hb : b < g) (hc : c < Cg) :
    padIdx [n, b, 0, c, i, j] [N, g, 1, Cg, H, W] [0, 0, 0, 0, pH, pW]
      = if (i < pH ∨ i ≥ H + pH) ∨ (j < pW ∨ j ≥ W + pW) then none else some [n, b, 0, c, i - pH, j - pW] := by
  have h1 : ¬ N ≤ n := by omega
  have h2 : ¬ g ≤ b := by omega
  have h3 : ¬ Cg ≤ c := by omega
  by_cases h : i < pH ∨ i ≥ H + pH <;> by_cases h' : j < pW ∨ j ≥ W + pW <;> simp [padIdx, h1, h2, h3, h, h']

theorem ainArr2_get {x : Arr Int} {N g Cg H W : Nat} (hx : x.shape = [N, g * Cg, H, W]) {pad : PArg} (hpad : Form2 pad)
    {n b c i j : Nat} (hn : n < N) (hb : b < g) (hc : c < Cg) (hi : i < H + 2 * (vals2 0 pad).1) (hj : j < W + 2 * (vals2 0 pad).2) :
    (ainArr2 x N g Cg H W pad).get [n, b, 0, c, i, j] = padRead2 x H W (vals2 0 pad).1 (vals2 0 pad).2 n (b * Cg + c) i j := by
  have padded : ∀ pH pW, i < H + 2 * pH → j < W + 2 * pW →
      padGet (rinArr2 x N g Cg H W) [0, 0, 0, 0, pH, pW] [n, b, 0, c, i, j] = padRead2 x H W pH pW n (b * Cg + c) i j := by
    intro pH pW hi hj
    simp only [padGet, padRead2, rinArr2, padIdx_2d hn hb hc]
    by_cases h : (pH ≤ i ∧ i < H + pH) ∧ (pW ≤ j ∧ j < W + pW)
    · have h1 : ¬ ((i < pH ∨ i ≥ H + pH) ∨ (j < pW ∨ j ≥ W + pW)) := by omega
      simp only [h1, if_false, h, and_self, if_true, hx]
      rw [rsh_input2 hn hb hc (by omega) (by omega)]
    · have h1 : ((i < pH ∨ i ≥ H + pH) ∨ (j < pW ∨ j ≥ W + pW)) := by omega
      simp only [h1, if_true, h, if_false]
  rcases hpad with rfl | ⟨p, rfl⟩ | ⟨ph, pw, rfl⟩
  · simp only [vals2, Nat.mul_zero, Nat.add_zero] at hi hj
    simp only [ainArr2, rinArr2, padRead2, vals2, hx, Nat.zero_le, true_and, Nat.add_zero, hi, hj, and_self, if_true, Nat.sub_zero]
    rw [rsh_input2 hn hb hc hi hj]
  · exact padded p p hi hj
  · exact padded ph pw hi hj

/-! ### stage 3: windows, multiply, sum, merge groups -/

theorem sw_idx6 (n0 n1 b c i j kw kh : Nat) :
    slidingWindowIdx 6 [-1, -2] [n0, n1, b, c, i, j, kw, kh] = [n0, n1, b, c, i + kh, j + kw] := by
  simp [slidingWindowIdx, slidingWindowIdx.go, posI]

theorem sw_idx5' (a b c z1 z2 kw kh : Nat) :
    slidingWindowIdx 5 [-1, -2] [a, b, c, z1, z2, kw, kh] = [a, b, c, z1 + kh, z2 + kw] := by
  simp [slidingWindowIdx, slidingWindowIdx.go, posI]

theorem merge8 (n a b i j c kw kh : Nat) : mergeIdx [7, 6, 3] 8 0 [n, a, b, i, j] [c, kw, kh] = [n, a, b, c, i, j, kw, kh] := by
  simp [mergeIdx]

theorem convCore2 {ain aw : Arr Int} {N Og g Cg Hp Wp KHp KWp : Nat} (hain : ain.shape = [N, g, 1, Cg, Hp, Wp])
    (haw : aw.shape = [g, Og, Cg, KHp, KWp]) (hOg : 0 < Og) (hg : 0 < g) (hKH : 0 < KHp) (hKW : 0 < KWp) (hfH : KHp ≤ Hp) (hfW : KWp ≤ Wp) :
    ∃ rs, convCore 2 ain aw = some rs ∧ rs.shape = [N, Og * g, Hp - (KHp - 1), Wp - (KWp - 1)] ∧
      ∀ n o i j, n < N → o < Og * g → i < Hp - (KHp - 1) → j < Wp - (KWp - 1) →
        rs.get [n, o, i, j] = sumTo Cg (fun c => sumTo KWp (fun kw => sumTo KHp (fun kh =>
          ain.get [n, o / Og, 0, c, i + kh, j + kw] * aw.get [o / Og, o % Og, c, kh, kw]))) := by
  have e1 : KHp - (KHp - 1) = 1 := by omega
  have e2 : KWp - (KWp - 1) = 1 := by omega
  have h1 : max (Hp - (KHp - 1)) 1 = Hp - (KHp - 1) := by omega
  have h2 : max (Wp - (KWp - 1)) 1 = Wp - (KWp - 1) := by omega
  have h3 : max 1 Og = Og := by omega
  have swi : slidingWindowShape [N, g, 1, Cg, Hp, Wp] [KWp, KHp] [-1, -2] = [N, g, 1, Cg, Hp - (KHp - 1), Wp - (KWp - 1), KWp, KHp] := by
    simp [slidingWindowShape, posI]
  have sww : slidingWindowShape [g, Og, Cg, KHp, KWp] [KWp, KHp] [-1, -2] = [g, Og, Cg, 1, 1, KWp, KHp] := by
    simp [slidingWindowShape, posI, e1, e2]
  have hbs : bshape [N, g, 1, Cg, Hp - (KHp - 1), Wp - (KWp - 1), KWp, KHp] [g, Og, Cg, 1, 1, KWp, KHp]
      = some [N, g, Og, Cg, Hp - (KHp - 1), Wp - (KWp - 1), KWp, KHp] := by
    simp [bshape, bshapeRev, h1, h2, h3]
  unfold convCore
  simp only [haw, cks2, cwa2, csa2, slidingWindowV, hain, swi, sww, binop, hbs,
    Option.map_some, Option.bind_some, sumAxes, List.length_cons, List.length_nil, List.map_cons, List.map_nil]
  have hp7 : posI (0 + 1 + 1 + 1 + 1 + 1 + 1 + 1 + 1) (-1) = 7 := by decide
  have hp6 : posI (0 + 1 + 1 + 1 + 1 + 1 + 1 + 1 + 1) (-2) = 6 := by decide
  have hp3 : posI (0 + 1 + 1 + 1 + 1 + 1 + 1 + 1 + 1) (-5) = 3 := by decide
  have hrm : removeAxes [7, 6, 3] 0 [N, g, Og, Cg, Hp - (KHp - 1), Wp - (KWp - 1), KWp, KHp] = [N, g, Og, Hp - (KHp - 1), Wp - (KWp - 1)] := by
    simp [removeAxes]
  have hpk : pickAxes [7, 6, 3] 0 [N, g, Og, Cg, Hp - (KHp - 1), Wp - (KWp - 1), KWp, KHp] = [Cg, KWp, KHp] := by
    simp [pickAxes]
  simp only [hp7, hp6, hp3, hrm, hpk, crr2]
  rw [reshapeV_some (by simp) (by simp only [prod]; ring)]
  rw [Nat.mul_comm g Og]
  refine ⟨_, rfl, rfl, ?_⟩
  intro n o i j hn ho hi hj
  simp only []
  rw [rsh_reduce2 hOg hn ho hi hj, listSum_allIdx3]
  apply sumTo_congr; intro c hc
  apply sumTo_congr; intro kw hkw
  apply sumTo_congr; intro kh hkh
  have ha : o % Og < Og := Nat.mod_lt _ hOg
  have hb : o / Og < g := div_lt_groups hOg ho
  simp only [Nat.reduceAdd, Nat.zero_add, merge8, bIdx, List.length_cons, List.length_nil, Nat.sub_self, List.drop_zero, List.drop_succ_cons,
    List.zipWith_cons_cons, List.zipWith_nil_right, if_true, bsel hn, bsel hb, bsel hc, bsel hi, bsel hj, bsel hkw, bsel hkh, bsel ha,
    sw_idx6, sw_idx5', Nat.zero_add]

/-! ### stage 4: bias and stride -/

theorem convBias2 {rs : Arr Int} {N O Ho Wo : Nat} (hrs : rs.shape = [N, O, Ho, Wo]) (hHo : 0 < Ho) (hWo : 0 < Wo) (bias : Option (Arr Int))
    (hb : ∀ b, bias = some b → b.shape = [O]) :
    ∃ ad, convBias 2 rs bias = some ad ∧ ad.shape = [N, O, Ho, Wo] ∧
      ∀ n o i j, n < N → o < O → i < Ho → j < Wo → ad.get [n, o, i, j] = rs.get [n, o, i, j] + biasVal bias o := by
  cases bias with
  | none => exact ⟨rs, rfl, hrs, fun n o i j _ _ _ _ => by simp [biasVal]⟩
  | some b =>
    have hbs := hb b rfl
    have h1 : max Ho 1 = Ho := by omega
    have h2 : max Wo 1 = Wo := by omega
    have hbsh : bshape [N, O, Ho, Wo] [O, 1, 1] = some [N, O, Ho, Wo] := by simp [bshape, bshapeRev, h1, h2]
    unfold convBias
    simp only [hbs, crb2]
    rw [reshapeV_some (by simp) (by rw [hbs]; simp only [prod])]
    simp only [Option.bind_some, binop, hrs, hbsh, Option.map_some]
    refine ⟨_, rfl, rfl, ?_⟩
    intro n o i j hn ho hi hj
    simp only [biasVal, hbs, bIdx, List.length_cons, List.length_nil, Nat.reduceAdd, Nat.zero_add, Nat.sub_self, List.drop_zero,
      Nat.reduceSub, List.drop_succ_cons, List.zipWith_cons_cons, List.zipWith_nil_right, if_true, bsel hn, bsel ho, bsel hi, bsel hj,
      rsh_bias2 ho]

theorem convStride2 {ad : Arr Int} {N O Ho Wo : Nat} (had : ad.shape = [N, O, Ho, Wo]) {stride : PArg} (hs : Form2 stride) :
    (convStride 2 ad stride).shape
        = [N, O, (Ho + (vals2 1 stride).1 - 1) / (vals2 1 stride).1, (Wo + (vals2 1 stride).2 - 1) / (vals2 1 stride).2] ∧
      ∀ n o i j, (convStride 2 ad stride).get [n, o, i, j] = ad.get [n, o, i * (vals2 1 stride).1, j * (vals2 1 stride).2] := by
  rcases hs with rfl | ⟨s, rfl⟩ | ⟨sh, sw, rfl⟩
  · simp [convStride, vals2, had]
  · simp [convStride, vals2, sliceStepV, sliceStepShape, sliceStepIdx, csteps2 (Or.inl ⟨s, rfl⟩), had]
  · simp [convStride, vals2, sliceStepV, sliceStepShape, sliceStepIdx, csteps2 (Or.inr ⟨sh, sw, rfl⟩), had]

theorem form2_of_pos {a : PArg} (h : PosForm2 a) : Form2 a := by
  rcases h with rfl | ⟨v, _, rfl⟩ | ⟨h, w, _, _, rfl⟩
  · exact Or.inl rfl
  · exact Or.inr (Or.inl ⟨v, rfl⟩)
  · exact Or.inr (Or.inr ⟨h, w, rfl⟩)

/-! ### assembly -/

theorem convnd2_eq_codeLoop {x w : Arr Int} {bias : Option (Arr Int)} {N Og g Cg H W KH KW : Nat} {stride padding dilation : PArg}
    (hx : x.shape = [N, g * Cg, H, W]) (hw : w.shape = [Og * g, Cg, KH, KW]) (hb : ∀ b, bias = some b → b.shape = [Og * g])
    (hOg : 0 < Og) (hg : 0 < g) (hKH : 0 < KH) (hKW : 0 < KW) (hs : PosForm2 stride) (hp : Form2 padding) (hd : PosForm2 dilation)
    (hfH : (KH - 1) * (vals2 1 dilation).1 + 1 ≤ H + 2 * (vals2 0 padding).1)
    (hfW : (KW - 1) * (vals2 1 dilation).2 + 1 ≤ W + 2 * (vals2 0 padding).2) :
    ∃ r, convnd 2 x w bias stride padding dilation g = .ok r ∧
      r.shape = [N, Og * g, outSize H KH (vals2 1 stride).1 (vals2 0 padding).1 (vals2 1 dilation).1,
                 outSize W KW (vals2 1 stride).2 (vals2 0 padding).2 (vals2 1 dilation).2] ∧
      ∀ n o i j, n < N → o < Og * g → i < outSize H KH (vals2 1 stride).1 (vals2 0 padding).1 (vals2 1 dilation).1 →
        j < outSize W KW (vals2 1 stride).2 (vals2 0 padding).2 (vals2 1 dilation).2 →
        r.get [n, o, i, j] = conv2dLoop (grpCode Og) x w bias H W Cg KH KW (vals2 1 stride).1 (vals2 1 stride).2
          (vals2 0 padding).1 (vals2 0 padding).2 (vals2 1 dilation).1 (vals2 1 dilation).2 n o i j := by
  obtain ⟨hdH, hdW⟩ := vals2_pos hd
  obtain ⟨hsH, hsW⟩ := vals2_pos hs
  generalize hdHe : (vals2 1 dilation).1 = dH at *
  generalize hdWe : (vals2 1 dilation).2 = dW at *
  generalize hsHe : (vals2 1 stride).1 = sH at *
  generalize hsWe : (vals2 1 stride).2 = sW at *
  generalize hpHe : (vals2 0 padding).1 = pH at *
  generalize hpWe : (vals2 0 padding).2 = pW at *
  have hains : (ainArr2 x N g Cg H W padding).shape = [N, g, 1, Cg, H + 2 * pH, W + 2 * pW] := by
    rw [ainArr2_shape hp, hpHe, hpWe]
  have haws : (awArr2 w Og g Cg KH KW dilation).shape = [g, Og, Cg, (KH - 1) * dH + 1, (KW - 1) * dW + 1] := by
    rw [awArr2_shape hKH hKW hd, hdHe, hdWe]
  obtain ⟨rs, hrs, hrss, hrsg⟩ := convCore2 hains haws hOg hg (Nat.succ_pos _) (Nat.succ_pos _) hfH hfW
  obtain ⟨ad, had, hads, hadg⟩ := convBias2 hrss (by omega) (by omega) bias hb
  have hst := convStride2 hads (form2_of_pos hs)
  rw [hsHe, hsWe] at hst
  refine ⟨convStride 2 ad stride, ?_, ?_, ?_⟩
  · unfold convnd
    rw [convWeight2_eq hw hg, convInput2_eq hx hg hp]
    simp only [hrs, Option.bind_some, had]
  · rw [hst.1, out_arith hsH hfH, out_arith hsW hfW]
  · intro n o i j hn ho hi hj
    rw [hst.2]
    have his : i * sH < H + 2 * pH - ((KH - 1) * dH + 1 - 1) := by
      apply mul_lt_of_lt_ceil hsH; rw [out_arith hsH hfH]; exact hi
    have hjs : j * sW < W + 2 * pW - ((KW - 1) * dW + 1 - 1) := by
      apply mul_lt_of_lt_ceil hsW; rw [out_arith hsW hfW]; exact hj
    rw [hadg n o _ _ hn ho his hjs, hrsg n o _ _ hn ho his hjs]
    unfold conv2dLoop grpCode
    congr 1
    apply sumTo_congr; intro c hc
    have hb' : o / Og < g := div_lt_groups hOg ho
    have ha' : o % Og < Og := Nat.mod_lt _ hOg
    have hog : o / Og * Og + o % Og = o := by rw [Nat.mul_comm]; exact Nat.div_add_mod o Og
    have step : ∀ kw, kw < (KW - 1) * dW + 1 → ∀ kh, kh < (KH - 1) * dH + 1 →
        (ainArr2 x N g Cg H W padding).get [n, o / Og, 0, c, i * sH + kh, j * sW + kw]
            * (awArr2 w Og g Cg KH KW dilation).get [o / Og, o % Og, c, kh, kw]
        = if kw % dW = 0 then
            (if kh % dH = 0 then
              padRead2 x H W pH pW n (o / Og * Cg + c) (i * sH + kh) (j * sW + kw) * w.get [o, c, kh / dH, kw / dW]
             else 0)
          else 0 := by
      intro kw hkw kh hkh
      have e1 := ainArr2_get (x := x) (N := N) (g := g) (Cg := Cg) (H := H) (W := W) hx hp hn hb' hc
        (i := i * sH + kh) (j := j * sW + kw) (by rw [hpHe]; omega) (by rw [hpWe]; omega)
      have e2 := awArr2_get (w := w) hw hKH hKW hd ha' hb' hc (kh := kh) (kw := kw) (by rw [hdHe]; exact hkh) (by rw [hdWe]; exact hkw)
      rw [hpHe, hpWe] at e1
      rw [hdHe, hdWe] at e2
      rw [e1, e2, hog]
      split
      · split <;> simp
      · simp
    have inner : ∀ kw, kw < (KW - 1) * dW + 1 →
        sumTo ((KH - 1) * dH + 1) (fun kh =>
          (ainArr2 x N g Cg H W padding).get [n, o / Og, 0, c, i * sH + kh, j * sW + kw]
            * (awArr2 w Og g Cg KH KW dilation).get [o / Og, o % Og, c, kh, kw])
        = if kw % dW = 0 then
            sumTo KH (fun kh => padRead2 x H W pH pW n (o / Og * Cg + c) (i * sH + kh * dH) (j * sW + kw) * w.get [o, c, kh, kw / dW])
          else 0 := by
      intro kw hkw
      rw [sumTo_congr (fun kh hkh => step kw hkw kh hkh)]
      by_cases hm : kw % dW = 0
      · simp only [hm, if_true]
        exact sumTo_dilate' KH dH hKH hdH (fun k k' =>
          padRead2 x H W pH pW n (o / Og * Cg + c) (i * sH + k') (j * sW + kw) * w.get [o, c, k, kw / dW])
      · simp only [hm, if_false]
        exact sumTo_const_zero _
    rw [sumTo_congr inner]
    rw [sumTo_dilate' KW dW hKW hdW (fun k k' =>
      sumTo KH (fun kh => padRead2 x H W pH pW n (o / Og * Cg + c) (i * sH + kh * dH) (j * sW + k') * w.get [o, c, kh, k]))]
    exact sumTo_comm KW KH _

theorem conv2dLoop_congr_grp {grp grp' : Nat → Nat} {o : Nat} (h : grp o = grp' o) (x w : Arr Int) (bias : Option (Arr Int))
    (H W Cg KH KW sH sW pH pW dH dW n i j : Nat) :
    conv2dLoop grp x w bias H W Cg KH KW sH sW pH pW dH dW n o i j = conv2dLoop grp' x w bias H W Cg KH KW sH sW pH pW dH dW n o i j := by
  unfold conv2dLoop; rw [h]

end NmVerif.NN
