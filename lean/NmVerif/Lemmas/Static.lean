import NmVerif.Static
/-
  Helper lemmas for Props/C11: the concretisation `γ` is preserved by the building blocks of the transfer functions
  (`seen`, `indexingInfo`, `productK`, `ufuncInfo`), and facts about the reference shape functions
  (length / product / pointwise bounds).
-/
namespace NmVerif.Static
open NmVerif

/-! ### LeAll -/

theorem LeAll.length_eq : ∀ {a b : List Nat}, LeAll a b → a.length = b.length
  | [], [], _ => rfl
  | _ :: as, _ :: bs, h => by simp [LeAll.length_eq (a := as) (b := bs) h.2]
  | [], _ :: _, h => by simp [LeAll] at h
  | _ :: _, [], h => by simp [LeAll] at h

theorem LeAll.refl : ∀ (a : List Nat), LeAll a a
  | [] => trivial
  | _ :: as => ⟨Nat.le_refl _, LeAll.refl as⟩

theorem LeAll.prod_le : ∀ {a b : List Nat}, LeAll a b → prod a ≤ prod b
  | [], [], _ => Nat.le_refl _
  | _ :: as, _ :: bs, h => by
      simp only [prod]
      exact Nat.mul_le_mul h.1 (LeAll.prod_le (a := as) (b := bs) h.2)
  | [], _ :: _, h => by simp [LeAll] at h
  | _ :: _, [], h => by simp [LeAll] at h

theorem LeAll.append : ∀ {a b c d : List Nat}, LeAll a b → LeAll c d → LeAll (a ++ c) (b ++ d)
  | [], [], _, _, _, h => by simpa using h
  | _ :: as, _ :: bs, _, _, h1, h2 => by
      simp only [List.cons_append, LeAll]
      exact ⟨h1.1, LeAll.append (a := as) (b := bs) h1.2 h2⟩
  | [], _ :: _, _, _, h, _ => by simp [LeAll] at h
  | _ :: _, [], _, _, h, _ => by simp [LeAll] at h

theorem LeAll.reverse : ∀ {a b : List Nat}, LeAll a b → LeAll a.reverse b.reverse
  | [], [], _ => trivial
  | x :: as, y :: bs, h => by
      simp only [List.reverse_cons]
      exact LeAll.append (LeAll.reverse (a := as) (b := bs) h.2) ⟨h.1, trivial⟩
  | [], _ :: _, h => by simp [LeAll] at h
  | _ :: _, [], h => by simp [LeAll] at h

theorem LeAll.getElem? : ∀ {a b : List Nat} (i : Nat) {x : Nat}, LeAll a b → a[i]? = some x → ∃ y, b[i]? = some y ∧ x ≤ y
  | [], [], _, _, _, h => by simp at h
  | x0 :: as, y0 :: bs, 0, x, hl, h => by
      simp at h; subst h; exact ⟨y0, by simp, hl.1⟩
  | _ :: as, _ :: bs, i + 1, x, hl, h => by
      simp at h
      obtain ⟨y, hy, hxy⟩ := LeAll.getElem? (a := as) (b := bs) i hl.2 h
      exact ⟨y, by simpa using hy, hxy⟩
  | [], _ :: _, _, _, h, _ => by simp [LeAll] at h
  | _ :: _, [], _, _, h, _ => by simp [LeAll] at h

/-! ### building blocks -/

theorem seen_sound {i : SInfo} {s : Shape} (h : i.γ s) : i.seen.γ s := by
  obtain ⟨hs, hz⟩ := h
  refine ⟨hs, ?_⟩
  unfold SInfo.seen
  cases hsz : i.size with
  | known n => simpa [hsz] using hz
  | atMost n => simpa [hsz] using hz
  | knownB n b => simp only [hsz, SizeK.γ] at hz; simpa [SizeK.γ] using hz.1
  | any =>
    cases hsh : i.shape with
    | const l => simp only [hsh, ShapeK.γ] at hs; subst hs; simp [SizeK.γ]
    | clipped b => simp only [hsh, ShapeK.γ] at hs; simpa [SizeK.γ] using hs.prod_le
    | fixedDim k => simp [SizeK.γ]
    | boundedDim k => simp [SizeK.γ]
    | dyn => simp [SizeK.γ]

theorem seen_shape (i : SInfo) : i.seen.shape = i.shape := rfl

theorem productK_sound {d : ShapeK} {t : Shape} (h : d.γ t) : (productK d).γ (prod t) := by
  cases d with
  | const l => simp only [ShapeK.γ] at h; subst h; simp [productK, SizeK.γ]
  | clipped b => simpa [productK, SizeK.γ] using (show LeAll t b from h).prod_le
  | fixedDim k => simp [productK, SizeK.γ]
  | boundedDim k => simp [productK, SizeK.γ]
  | dyn => simp [productK, SizeK.γ]

theorem indexingInfo_sound {d : ShapeK} {z : SizeK} {t : Shape} (hd : d.γ t) (hz : z.γ (prod t)) :
    (indexingInfo d z).γ t := by
  refine ⟨hd, ?_⟩
  unfold indexingInfo
  cases z with
  | known n => simpa using hz
  | atMost n =>
    cases d with
    | const l => simp only [ShapeK.γ] at hd; subst hd; simp [SizeK.γ]
    | clipped b => simpa using hz
    | fixedDim k => simpa using hz
    | boundedDim k => simpa using hz
    | dyn => simpa using hz
  | any =>
    cases d with
    | const l => simp only [ShapeK.γ] at hd; subst hd; simp [SizeK.γ]
    | clipped b => simpa [SizeK.γ] using (show LeAll t b from hd).prod_le
    | fixedDim k => simp [SizeK.γ]
    | boundedDim k => simp [SizeK.γ]
    | dyn => simp [SizeK.γ]
  | knownB n b =>
    cases d with
    | const l => simp only [ShapeK.γ] at hd; subst hd; simp [SizeK.γ]
    | clipped b => simpa [SizeK.γ] using (show LeAll t b from hd).prod_le
    | fixedDim k => simp [SizeK.γ]
    | boundedDim k => simp [SizeK.γ]
    | dyn => simp [SizeK.γ]

theorem ufuncInfo_sound {k : ShapeK} {z : SizeK} {t : Shape} (hk : k.γ t) (hz : z.γ (prod t)) : (ufuncInfo k z).γ t := by
  refine ⟨hk, ?_⟩
  unfold ufuncInfo
  cases k with
  | const l => simp only [ShapeK.γ] at hk; subst hk; simp [SizeK.γ]
  | clipped b => simpa [SizeK.γ] using (show LeAll t b from hk).prod_le
  | fixedDim k => simpa using hz
  | boundedDim k => simpa using hz
  | dyn => simpa using hz

theorem lenK_toShapeK_sound {k : ShapeK} {s t : Shape} (hk : k.γ s) (hl : t.length = s.length) : k.lenK.toShapeK.γ t := by
  cases k with
  | const l => simp only [ShapeK.γ] at hk; subst hk; simpa [ShapeK.lenK, LenK.toShapeK, ShapeK.γ] using hl
  | clipped b => simpa [ShapeK.lenK, LenK.toShapeK, ShapeK.γ, hl] using (show LeAll s b from hk).length_eq
  | fixedDim k => simp only [ShapeK.γ] at hk; simpa [ShapeK.lenK, LenK.toShapeK, ShapeK.γ, hl] using hk
  | boundedDim k => simp only [ShapeK.γ] at hk; simpa [ShapeK.lenK, LenK.toShapeK, ShapeK.γ, hl] using hk
  | dyn => simp [ShapeK.lenK, LenK.toShapeK, ShapeK.γ]

/-- concretisation of a length kind -/
def LenK.γ : LenK → Nat → Prop
  | .fixed n, m => m = n
  | .bounded n, m => m ≤ n
  | .dyn, _ => True

theorem lenK_sound {k : ShapeK} {s : Shape} (hk : k.γ s) : k.lenK.γ s.length := by
  cases k with
  | const l => simp only [ShapeK.γ] at hk; subst hk; simp [ShapeK.lenK, LenK.γ]
  | clipped b => simpa [ShapeK.lenK, LenK.γ] using (show LeAll s b from hk).length_eq
  | fixedDim k => simpa [ShapeK.lenK, LenK.γ, ShapeK.γ] using hk
  | boundedDim k => simpa [ShapeK.lenK, LenK.γ, ShapeK.γ] using hk
  | dyn => simp [ShapeK.lenK, LenK.γ]

theorem toShapeK_of_lenK {k : LenK} {t : Shape} (h : k.γ t.length) : k.toShapeK.γ t := by
  cases k <;> simpa [LenK.toShapeK, ShapeK.γ, LenK.γ] using h

theorem arrK_toShapeK_sound {k : ArrK} {v : List Nat} (h : k.γ v) : k.toShapeK.γ v := by
  cases k <;> simpa [ArrK.toShapeK, ShapeK.γ, ArrK.γ] using h

theorem arrK_lenK_sound {k : ArrK} {v : List Nat} (h : k.γ v) : k.lenK.γ v.length := by
  cases k with
  | ct c => simp only [ArrK.γ] at h; subst h; simp [ArrK.lenK, LenK.γ]
  | cl m => simpa [ArrK.lenK, LenK.γ] using (show LeAll v m from h).length_eq
  | rt n => simpa [ArrK.lenK, LenK.γ, ArrK.γ] using h
  | rtv => simp [ArrK.lenK, LenK.γ]
  | bnd cap => simpa [ArrK.lenK, LenK.γ, ArrK.γ] using h

/-! ### products -/

theorem prod_perm {a b : List Nat} (h : a.Perm b) : prod a = prod b := by
  induction h with
  | nil => rfl
  | cons x _ ih => simp [prod, ih]
  | swap x y l => simp only [prod]; rw [← Nat.mul_assoc, ← Nat.mul_assoc, Nat.mul_comm y x]
  | trans _ _ ih1 ih2 => exact ih1.trans ih2

theorem prod_filter_ne_one (s : List Nat) : prod (s.filter (· ≠ 1)) = prod s := by
  induction s with
  | nil => rfl
  | cons a t ih =>
    by_cases h : a = 1
    · subst h; simpa [prod] using ih
    · simpa [List.filter, h, prod] using congrArg (a * ·) ih

theorem prod_insertIdx_one : ∀ (l : List Nat) (a : Nat), prod (l.insertIdx a 1) = prod l
  | l, 0 => by simp [List.insertIdx, prod]
  | [], a + 1 => by simp [List.insertIdx]
  | x :: xs, a + 1 => by simp [List.insertIdx_succ_cons, prod, prod_insertIdx_one xs a]

theorem prod_set_one_le : ∀ (l : List Nat) (a : Nat), Pos l → prod (l.set a 1) ≤ prod l
  | [], _, _ => by simp
  | x :: xs, 0, h => by
      simp only [List.set, prod]
      exact Nat.mul_le_mul_right _ h.head
  | x :: xs, a + 1, h => by
      simp only [List.set, prod]
      exact Nat.mul_le_mul_left _ (prod_set_one_le xs a h.tail)

theorem prod_eraseIdx_le : ∀ (l : List Nat) (a : Nat), Pos l → prod (l.eraseIdx a) ≤ prod l
  | [], _, _ => by simp
  | x :: xs, 0, h => by
      simp only [List.eraseIdx, prod]
      exact Nat.le_mul_of_pos_left _ h.head
  | x :: xs, a + 1, h => by
      simp only [List.eraseIdx, prod]
      exact Nat.mul_le_mul_left _ (prod_eraseIdx_le xs a h.tail)

theorem pos_set_one : ∀ (l : List Nat) (a : Nat), Pos l → Pos (l.set a 1) := by
  intro l a h x hx
  rcases List.mem_or_eq_of_mem_set hx with hx | hx
  · exact h x hx
  · omega

theorem pos_eraseIdx (l : List Nat) (a : Nat) (h : Pos l) : Pos (l.eraseIdx a) :=
  fun x hx => h x (List.mem_of_mem_eraseIdx hx)

/-! ### sorting -/

theorem length_insertSorted (a : Nat) : ∀ l : List Nat, (insertSorted a l).length = l.length + 1
  | [] => rfl
  | b :: bs => by
      unfold insertSorted
      split
      · simp
      · simp [length_insertSorted a bs]

theorem length_sortAsc : ∀ l : List Nat, (sortAsc l).length = l.length
  | [] => rfl
  | a :: as => by
      simp only [sortAsc, List.foldr_cons] at *
      rw [length_insertSorted]
      simpa [sortAsc] using length_sortAsc as

/-! ### reshape -/

theorem length_fillNeg (q : Nat) (t : List Int) : (fillNeg q t).length = t.length := by simp [fillNeg]

theorem prod_fillNeg (q : Nat) : ∀ t : List Int, prod (fillNeg q t) = q ^ (t.countP (· < 0)) * knownProd t
  | [] => by simp [fillNeg, prod, knownProd]
  | x :: xs => by
      have ih := prod_fillNeg q xs
      simp only [fillNeg, List.map_cons, prod] at ih ⊢
      by_cases hx : x < 0
      · simp only [hx, if_true, knownProd, List.countP_cons, decide_true]
        rw [ih, Nat.pow_succ]
        simp [Nat.mul_comm, Nat.mul_left_comm]
      · simp only [hx, if_false, knownProd, List.countP_cons, decide_false]
        rw [ih]
        simp [Nat.mul_left_comm]

theorem countP_neg_of_nonneg {t : List Int} (h : ∀ x ∈ t, 0 ≤ x) : t.countP (· < 0) = 0 := by
  rw [List.countP_eq_zero]
  intro x hx
  have := h x hx
  simp; omega

theorem fillNeg_of_nonneg (q : Nat) {t : List Int} (h : ∀ x ∈ t, 0 ≤ x) : fillNeg q t = t.map Int.toNat := by
  unfold fillNeg
  apply List.map_congr_left
  intro x hx
  have := h x hx
  simp; omega

theorem refReshape_spec {targ : List Int} {s t : Shape} (h : refReshape targ s = some t) :
    t.length = targ.length ∧ prod t = prod s ∧ ((∀ x ∈ targ, 0 ≤ x) → t = targ.map Int.toNat) := by
  unfold refReshape at h
  simp only at h
  split at h
  · rename_i hc
    split at h
    · rename_i hk
      simp only [Option.some.injEq] at h
      subst h
      refine ⟨length_fillNeg _ _, ?_, fun hn => fillNeg_of_nonneg 0 hn⟩
      rw [prod_fillNeg, hc, ← hk]; simp
    · simp at h
  · rename_i hc
    split at h
    · rename_i hk
      obtain ⟨h1, _, hpos, hmod⟩ := hk
      simp only [Option.some.injEq] at h
      subst h
      refine ⟨length_fillNeg _ _, ?_, fun hn => absurd (countP_neg_of_nonneg hn) hc⟩
      rw [prod_fillNeg, h1, Nat.pow_one]
      exact Nat.div_mul_cancel (Nat.dvd_of_mod_eq_zero hmod)
    · simp at h

/-! ### tile -/

theorem length_tileRev : ∀ (a r : List Nat), (tileRev a r).length = max a.length r.length
  | [], r => by simp [tileRev]
  | _ :: _, [] => by simp [tileRev]
  | _ :: as, _ :: rs => by simp [tileRev, length_tileRev as rs]

theorem length_refTile (reps s : List Nat) : (refTile reps s).length = max s.length reps.length := by
  simp [refTile, length_tileRev]

theorem tileLenK_sound {a b : LenK} {n m : Nat} (ha : a.γ n) (hb : b.γ m) : (tileLenK a b).γ (max n m) := by
  cases a <;> cases b <;> simp only [tileLenK, LenK.γ] at * <;> omega

/-! ### transpose -/

theorem gather_length : ∀ {p : List Nat} {s t : Shape}, gather p s = some t → t.length = p.length
  | [], _, t, h => by simp [gather] at h; subst h; rfl
  | a :: as, s, t, h => by
      simp only [gather] at h
      split at h
      · rename_i x r hx hr
        simp only [Option.some.injEq] at h; subst h
        simp [gather_length hr]
      · simp at h

theorem gather_eq_map : ∀ {p : List Nat} {s t : Shape}, gather p s = some t → t = p.map (fun a => s[a]?.getD 0)
  | [], _, t, h => by simp [gather] at h; subst h; rfl
  | a :: as, s, t, h => by
      simp only [gather] at h
      split at h
      · rename_i x r hx hr
        simp only [Option.some.injEq] at h; subst h
        simp [hx, gather_eq_map hr]
      · simp at h

theorem gather_leAll : ∀ {p : List Nat} {s b t : Shape}, LeAll s b → gather p s = some t →
    ∃ t', gather p b = some t' ∧ LeAll t t'
  | [], _, _, t, _, h => by simp [gather] at h; subst h; exact ⟨[], by simp [gather], trivial⟩
  | a :: as, s, b, t, hl, h => by
      simp only [gather] at h
      split at h
      · rename_i x r hx hr
        simp only [Option.some.injEq] at h; subst h
        obtain ⟨y, hy, hxy⟩ := hl.getElem? a hx
        obtain ⟨r', hr', hrr⟩ := gather_leAll (p := as) hl hr
        exact ⟨y :: r', by simp [gather, hy, hr'], hxy, hrr⟩
      · simp at h

theorem map_getD_range (s : List Nat) : (List.range s.length).map (fun a => s[a]?.getD 0) = s := by
  apply List.ext_getElem
  · simp
  · intro i h1 h2
    simp at h1 h2 ⊢
    simp [h2]

theorem gather_prod {p : List Nat} {s t : Shape} (hp : p.Perm (List.range s.length)) (h : gather p s = some t) :
    prod t = prod s := by
  rw [gather_eq_map h]
  have := prod_perm (hp.map (fun a => s[a]?.getD 0))
  rw [map_getD_range] at this
  exact this

/-! ### expand_dims / reduce -/

theorem insertOne_spec {l t : Shape} {a : Nat} (h : insertOne l a = some t) : t.length = l.length + 1 ∧ prod t = prod l := by
  unfold insertOne at h
  split at h
  · rename_i ha
    simp only [Option.some.injEq] at h; subst h
    exact ⟨by simp [List.length_insertIdx, ha], prod_insertIdx_one l a⟩
  · simp at h

theorem foldlM_insertOne_spec : ∀ (axes : List Nat) {s t : Shape}, axes.foldlM insertOne s = some t →
    t.length = s.length + axes.length ∧ prod t = prod s
  | [], s, t, h => by simp at h; subst h; simp
  | a :: as, s, t, h => by
      simp only [List.foldlM_cons] at h
      cases h1 : insertOne s a with
      | none => simp [h1] at h
      | some u =>
        simp only [h1] at h
        obtain ⟨hl, hp⟩ := insertOne_spec h1
        obtain ⟨hl2, hp2⟩ := foldlM_insertOne_spec as h
        exact ⟨by simp [hl2, hl]; omega, hp2.trans hp⟩

theorem refExpandDims_spec {axes : List Nat} {s t : Shape} (h : refExpandDims axes s = some t) :
    t.length = s.length + axes.length ∧ prod t = prod s := by
  unfold refExpandDims at h
  split at h
  · have := foldlM_insertOne_spec _ h
    rwa [length_sortAsc] at this
  · simp at h

theorem eraseOne_spec {kd : Bool} {l t : Shape} {a : Nat} (hpos : Pos l) (h : eraseOne kd l a = some t) :
    (if kd then t.length = l.length else t.length + 1 = l.length) ∧ prod t ≤ prod l ∧ Pos t := by
  unfold eraseOne at h
  split at h
  · rename_i ha
    simp only [Option.some.injEq] at h; subst h
    cases kd with
    | true => exact ⟨by simp, prod_set_one_le l a hpos, pos_set_one l a hpos⟩
    | false =>
      refine ⟨?_, prod_eraseIdx_le l a hpos, pos_eraseIdx l a hpos⟩
      simp [List.length_eraseIdx, ha]; omega
  · simp at h

theorem foldlM_eraseOne_spec (kd : Bool) : ∀ (axes : List Nat) {s t : Shape}, Pos s → axes.foldlM (eraseOne kd) s = some t →
    (if kd then t.length = s.length else t.length + axes.length = s.length) ∧ prod t ≤ prod s
  | [], s, t, _, h => by simp at h; subst h; cases kd <;> simp
  | a :: as, s, t, hpos, h => by
      simp only [List.foldlM_cons] at h
      cases h1 : eraseOne kd s a with
      | none => simp [h1] at h
      | some u =>
        simp only [h1] at h
        obtain ⟨hl, hp, hpu⟩ := eraseOne_spec hpos h1
        obtain ⟨hl2, hp2⟩ := foldlM_eraseOne_spec kd as hpu h
        refine ⟨?_, Nat.le_trans hp2 hp⟩
        cases kd with
        | true => simp at hl hl2 ⊢; omega
        | false => simp at hl hl2 ⊢; omega

theorem refReduce_spec {axes : List Nat} {kd : Bool} {s t : Shape} (hpos : Pos s) (h : refReduce axes kd s = some t) :
    (if kd then t.length = s.length else t.length + axes.length = s.length) ∧ prod t ≤ prod s := by
  unfold refReduce at h
  split at h
  · have := foldlM_eraseOne_spec kd _ hpos h
    simpa [length_sortAsc] using this
  · simp at h

theorem lenK_add_sound {k : LenK} {n : Nat} (m : Nat) (h : k.γ n) : (k.add m).γ (n + m) := by
  cases k <;> simp only [LenK.add, LenK.γ] at * <;> omega

theorem lenK_sub_sound {k k' : LenK} {n m r : Nat} (h : k.γ n) (hs : k.sub m = some k') (hr : r + m = n) : k'.γ r := by
  cases k with
  | fixed a =>
    simp only [LenK.sub] at hs
    split at hs <;> simp at hs
    subst hs; simp only [LenK.γ] at *; omega
  | bounded a =>
    simp only [LenK.sub] at hs
    split at hs <;> simp at hs
    subst hs; simp only [LenK.γ] at *; omega
  | dyn => simp only [LenK.sub, Option.some.injEq] at hs; subst hs; trivial

/-! ### broadcasting -/

theorem length_bcastRev : ∀ {a b t : List Nat}, bcastRev a b = some t → t.length = max a.length b.length
  | [], b, t, h => by simp [bcastRev] at h; subst h; simp
  | _ :: _, [], t, h => by simp [bcastRev] at h; subst h; simp
  | x :: as, y :: bs, t, h => by
      simp only [bcastRev] at h
      split at h
      · simp only [Option.map_eq_some_iff] at h
        obtain ⟨r, hr, rfl⟩ := h
        simp [length_bcastRev hr]
      · split at h
        · simp only [Option.map_eq_some_iff] at h
          obtain ⟨r, hr, rfl⟩ := h
          simp [length_bcastRev hr]
        · simp at h

theorem bcastRev_leAll : ∀ {a va b vb t r : List Nat}, LeAll a va → LeAll b vb →
    bcastRev a b = some t → bcastRev va vb = some r → LeAll t r
  | [], [], b, vb, t, r, _, hb, ht, hr => by
      simp [bcastRev] at ht hr; subst ht hr; exact hb
  | x :: as, y :: vas, [], [], t, r, ha, _, ht, hr => by
      simp [bcastRev] at ht hr; subst ht hr; exact ha
  | x :: as, y :: vas, u :: bs, v :: vbs, t, r, ha, hb, ht, hr => by
      obtain ⟨hxy, has⟩ := ha
      obtain ⟨huv, hbs⟩ := hb
      simp only [bcastRev] at ht hr
      -- tails
      have tail : ∀ t' r', bcastRev as bs = some t' → bcastRev vas vbs = some r' → LeAll t' r' :=
        fun t' r' h1 h2 => bcastRev_leAll has hbs h1 h2
      split at ht <;> split at hr
      all_goals (try (split at ht)) 
      all_goals (try (split at hr))
      all_goals (try (simp at ht; done))
      all_goals (try (simp at hr; done))
      all_goals
        simp only [Option.map_eq_some_iff] at ht hr
        obtain ⟨t', ht', rfl⟩ := ht
        obtain ⟨r', hr', rfl⟩ := hr
        refine ⟨?_, tail t' r' ht' hr'⟩
        simp only [beq_iff_eq, Bool.or_eq_true, not_or] at *
        omega
  | [], _ :: _, _, _, _, _, h, _, _, _ => by simp [LeAll] at h
  | _ :: _, [], _, _, _, _, h, _, _, _ => by simp [LeAll] at h
  | _ :: _, _ :: _, [], _ :: _, _, _, _, h, _, _ => by simp [LeAll] at h
  | _ :: _, _ :: _, _ :: _, [], _, _, _, h, _, _ => by simp [LeAll] at h

theorem bcastRev_eq_left : ∀ {a b t : List Nat}, (∀ x ∈ a, 1 < x) → b.length ≤ a.length → bcastRev a b = some t → t = a
  | [], b, t, _, hl, h => by
      have : b = [] := by cases b <;> simp at hl ⊢
      subst this; simp [bcastRev] at h; first | exact h | exact h.symm
  | _ :: _, [], t, _, _, h => by simp [bcastRev] at h; first | exact h | exact h.symm
  | x :: as, y :: bs, t, hgt, hl, h => by
      have hx : 1 < x := hgt x (by simp)
      have htail : ∀ t', bcastRev as bs = some t' → t' = as :=
        fun t' h' => bcastRev_eq_left (fun z hz => hgt z (by simp [hz])) (by simpa using hl) h'
      simp only [bcastRev] at h
      split at h
      · simp only [Option.map_eq_some_iff] at h
        obtain ⟨r, hr, rfl⟩ := h
        rw [htail r hr]
      · split at h
        · rename_i h1; simp at h1; omega
        · simp at h

theorem bcastRev_eq_right : ∀ {a b t : List Nat}, (∀ x ∈ b, 1 < x) → a.length ≤ b.length → bcastRev a b = some t → t = b
  | [], b, t, _, _, h => by simp [bcastRev] at h; first | exact h | exact h.symm
  | x :: as, [], t, _, hl, h => by simp at hl
  | x :: as, y :: bs, t, hgt, hl, h => by
      have hy : 1 < y := hgt y (by simp)
      have htail : ∀ t', bcastRev as bs = some t' → t' = bs :=
        fun t' h' => bcastRev_eq_right (fun z hz => hgt z (by simp [hz])) (by simpa using hl) h'
      simp only [bcastRev] at h
      split at h
      · rename_i h1
        simp only [Option.map_eq_some_iff] at h
        obtain ⟨r, hr, rfl⟩ := h
        rw [htail r hr]
        simp only [beq_iff_eq, Bool.or_eq_true] at h1
        rcases h1 with h1 | h1
        · rw [h1]
        · omega
      · split at h
        · simp only [Option.map_eq_some_iff] at h
          obtain ⟨r, hr, rfl⟩ := h
          rw [htail r hr]
        · simp at h

theorem refBroadcast_length {a b t : Shape} (h : refBroadcast a b = some t) : t.length = max a.length b.length := by
  simp only [refBroadcast, Option.map_eq_some_iff] at h
  obtain ⟨r, hr, rfl⟩ := h
  simpa using length_bcastRev hr

theorem refBroadcast_leAll {a va b vb t r : Shape} (ha : LeAll a va) (hb : LeAll b vb)
    (ht : refBroadcast a b = some t) (hr : refBroadcast va vb = some r) : LeAll t r := by
  simp only [refBroadcast, Option.map_eq_some_iff] at ht hr
  obtain ⟨t', ht', rfl⟩ := ht
  obtain ⟨r', hr', rfl⟩ := hr
  exact (bcastRev_leAll ha.reverse hb.reverse ht' hr').reverse

theorem refBroadcast_eq_left {a b t : Shape} (hgt : ∀ x ∈ a, 1 < x) (hl : b.length ≤ a.length)
    (h : refBroadcast a b = some t) : t = a := by
  simp only [refBroadcast, Option.map_eq_some_iff] at h
  obtain ⟨r, hr, rfl⟩ := h
  rw [bcastRev_eq_left (fun x hx => hgt x (by simpa using hx)) (by simpa using hl) hr]; simp

theorem refBroadcast_eq_right {a b t : Shape} (hgt : ∀ x ∈ b, 1 < x) (hl : a.length ≤ b.length)
    (h : refBroadcast a b = some t) : t = b := by
  simp only [refBroadcast, Option.map_eq_some_iff] at h
  obtain ⟨r, hr, rfl⟩ := h
  rw [bcastRev_eq_right (fun x hx => hgt x (by simpa using hx)) (by simpa using hl) hr]; simp

theorem le_foldl_max : ∀ (l : List Nat) (init : Nat), init ≤ l.foldl max init ∧ ∀ x ∈ l, x ≤ l.foldl max init
  | [], init => by simp
  | a :: as, init => by
      obtain ⟨h1, h2⟩ := le_foldl_max as (max init a)
      simp only [List.foldl_cons]
      refine ⟨by omega, ?_⟩
      intro x hx
      simp at hx
      rcases hx with rfl | hx
      · omega
      · exact h2 x hx

theorem foldl_min_le : ∀ (l : List Nat) (init : Nat), l.foldl min init ≤ init ∧ ∀ x ∈ l, l.foldl min init ≤ x
  | [], init => by simp
  | a :: as, init => by
      obtain ⟨h1, h2⟩ := foldl_min_le as (min init a)
      simp only [List.foldl_cons]
      refine ⟨by omega, ?_⟩
      intro x hx
      simp at hx
      rcases hx with rfl | hx
      · omega
      · exact h2 x hx

theorem one_le_foldl_min : ∀ (l : List Nat) (init : Nat), 1 ≤ init → Pos l → 1 ≤ l.foldl min init
  | [], _, h, _ => by simpa using h
  | a :: as, init, h, hp => by
      simp only [List.foldl_cons]
      exact one_le_foldl_min as _ (by have := hp.head; omega) hp.tail

theorem all_gt_one_of_min {l : List Nat} (hp : Pos l) (h : l.foldl min (l.headD 0) ≠ 1) : ∀ x ∈ l, 1 < x := by
  intro x hx
  have hx1 := hp x hx
  rcases Nat.lt_or_ge 1 x with hc | hc
  · exact hc
  exfalso
  have hx' : x = 1 := by omega
  subst hx'
  have hle := (foldl_min_le l (l.headD 0)).2 1 hx
  have hinit : 1 ≤ l.headD 0 := by
    cases l with
    | nil => simp at hx
    | cons a t => have := hp.head; simp; omega
  have hge := one_le_foldl_min l _ hinit hp
  omega

theorem leAll_replicate {l : List Nat} {m : Nat} (h : ∀ x ∈ l, x ≤ m) : LeAll l (List.replicate l.length m) := by
  induction l with
  | nil => trivial
  | cons a t ih =>
    simp only [List.length_cons, List.replicate_succ, LeAll]
    exact ⟨h a (by simp), ih (fun x hx => h x (by simp [hx]))⟩

/-! ### concatenate -/

theorem concatAt_spec : ∀ {k : Nat} {a b t : Shape}, concatAt k a b = some t →
    t.length = a.length ∧ t.length = b.length ∧ prod t = prod a + prod b
  | 0, [], [], t, h => by simp [concatAt] at h
  | _ + 1, [], [], t, h => by simp [concatAt] at h
  | 0, x :: as, y :: bs, t, h => by
      simp only [concatAt] at h
      split at h
      · rename_i heq
        simp only [Option.some.injEq] at h; subst h
        have : as = bs := by simpa using heq
        subst this
        simp [prod, Nat.add_mul]
      · simp at h
  | k + 1, x :: as, y :: bs, t, h => by
      simp only [concatAt] at h
      split at h
      · rename_i heq
        have : x = y := by simpa using heq
        subst this
        simp only [Option.map_eq_some_iff] at h
        obtain ⟨r, hr, rfl⟩ := h
        obtain ⟨h1, h2, h3⟩ := concatAt_spec hr
        simp [prod, h1, h2, h3, Nat.mul_add]
        omega
      · simp at h
  | _, [], _ :: _, _, h => by simp [concatAt] at h
  | _, _ :: _, [], _, h => by simp [concatAt] at h

theorem concatAt_leAll : ∀ {k : Nat} {a va b vb t r : Shape}, LeAll a va → LeAll b vb →
    concatAt k a b = some t → concatAt k va vb = some r → LeAll t r
  | 0, [], [], [], [], t, r, _, _, ht, _ => by simp [concatAt] at ht
  | _ + 1, [], [], [], [], t, r, _, _, ht, _ => by simp [concatAt] at ht
  | 0, x :: as, y :: vas, u :: bs, v :: vbs, t, r, ha, hb, ht, hr => by
      simp only [concatAt] at ht hr
      split at ht <;> split at hr <;> simp at ht hr
      subst ht hr
      exact ⟨Nat.add_le_add ha.1 hb.1, ha.2⟩
  | k + 1, x :: as, y :: vas, u :: bs, v :: vbs, t, r, ha, hb, ht, hr => by
      simp only [concatAt] at ht hr
      split at ht <;> split at hr <;> simp at ht hr
      obtain ⟨t', ht', rfl⟩ := ht
      obtain ⟨r', hr', rfl⟩ := hr
      exact ⟨ha.1, concatAt_leAll ha.2 hb.2 ht' hr'⟩
  | _, [], _ :: _, _, _, _, _, h, _, _, _ => by simp [LeAll] at h
  | _, _ :: _, [], _, _, _, _, h, _, _, _ => by simp [LeAll] at h
  | _, _, _, [], _ :: _, _, _, _, h, _, _ => by simp [LeAll] at h
  | _, _, _, _ :: _, [], _, _, _, h, _, _ => by simp [LeAll] at h
  | _, [], [], _ :: _, _ :: _, _, _, _, _, ht, _ => by simp [concatAt] at ht
  | _, _ :: _, _ :: _, [], [], _, _, _, _, ht, _ => by simp [concatAt] at ht

theorem refConcat_spec {axis : Option Nat} {a b t : Shape} (h : refConcat axis a b = some t) :
    prod t = prod a + prod b ∧ (axis = none → t.length = 1) ∧ (axis ≠ none → t.length = a.length ∧ t.length = b.length) := by
  cases axis with
  | none => simp only [refConcat, Option.some.injEq] at h; subst h; simp [prod]
  | some k =>
    simp only [refConcat] at h
    split at h
    · obtain ⟨h1, h2, h3⟩ := concatAt_spec h
      exact ⟨h3, by simp, fun _ => ⟨h1, h2⟩⟩
    · simp at h

theorem refConcat_leAll {axis : Option Nat} {a va b vb t r : Shape} (ha : LeAll a va) (hb : LeAll b vb)
    (ht : refConcat axis a b = some t) (hr : refConcat axis va vb = some r) : LeAll t r := by
  cases axis with
  | none =>
    simp only [refConcat, Option.some.injEq] at ht hr; subst ht hr
    exact ⟨Nat.add_le_add ha.prod_le hb.prod_le, trivial⟩
  | some k =>
    simp only [refConcat] at ht hr
    split at ht
    · split at hr
      · exact concatAt_leAll ha hb ht hr
      · simp at hr
    · simp at ht

theorem leAll_bump : ∀ {t r : List Nat}, LeAll t r → LeAll t (r.map (fun x => if x == 0 then 1 else x))
  | [], [], _ => trivial
  | x :: ts, y :: rs, h => by
      refine ⟨?_, leAll_bump h.2⟩
      have := h.1
      by_cases hy : y = 0
      · subst hy; simp; omega
      · simpa [hy] using this
  | [], _ :: _, h => by simp [LeAll] at h
  | _ :: _, [], h => by simp [LeAll] at h

end NmVerif.Static
