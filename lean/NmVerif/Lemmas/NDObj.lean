import NmVerif.Containers.NDArrayObj
import NmVerif.Lemmas.Addressing
import NmVerif.Arr
/-
  Helper lemmas for C20 (array-object state machine, cast).  Property statements live in Props/C20.lean.
-/
namespace NmVerif.NDObj
open NmVerif

theorem resizeBuf_length (d : List Int) (n : Nat) : (resizeBuf d n).length = n := by
  simp [resizeBuf]

theorem prod_replicate_one (k n : Nat) : prod (List.replicate k 1 ++ [n]) = n := by
  induction k with
  | zero => simp [prod]
  | succ m ih => simp [List.replicate_succ, prod, ih]

theorem pos_of_prod_pos {s : List Nat} (h : 0 < prod s) : Pos s := by
  induction s with
  | nil => intro x hx; simp at hx
  | cons a t ih =>
    simp only [prod] at h
    have ha : 0 < a := Nat.pos_of_mul_pos_right h
    have ht : 0 < prod t := Nat.pos_of_mul_pos_left h
    intro x hx
    simp at hx
    rcases hx with rfl | hx
    · exact ha
    · exact ih ht x hx

/-! ### invariant preservation -/

theorem init_objInv (c : Cfg) (h : CfgOk c) (hx' : DefaultOk c) : ObjInv c (init c) := by
  obtain ⟨hs, hb, hx⟩ := h
  obtain ⟨sk, bk, cm⟩ := c
  unfold DefaultOk at hx'
  unfold ObjInv init
  refine ⟨?_, rfl, ?_, ?_⟩
  · cases sk <;> cases bk <;> simp_all [prod, prod_replicate_one]
    rename_i ms n
    cases hl : ms.getLast? <;> simp_all
  · cases sk <;> simp_all <;> omega
  · cases bk <;> simp_all
    cases sk <;> simp_all [prod, prod_replicate_one]
    · omega
    · omega
    · omega
    · rename_i cap ms
      cases hl : ms.getLast? <;> simp <;> omega

theorem resize_objInv (c : Cfg) (st : St) (new : List Nat) (hi : ObjInv c st) : ObjInv c (resize c st new).1 := by
  unfold resize
  split
  · rename_i hacc
    unfold accepts at hacc
    simp only [Bool.and_eq_true] at hacc
    obtain ⟨h1, h2⟩ := hacc
    refine ⟨by simp [resizeBuf_length], rfl, ?_, ?_⟩
    · obtain ⟨_, _, hk, _⟩ := hi
      cases hsk : c.sk <;> simp_all <;> omega
    · obtain ⟨_, _, _, hk⟩ := hi
      cases hbk : c.bk <;> simp_all [resizeBuf_length]
  · exact hi

theorem write_objInv (c : Cfg) (st : St) (i : Idx) (v : Int) (hi : ObjInv c st) : ObjInv c (write st i v) := by
  unfold ObjInv write at *; simpa using hi

theorem fill_objInv (c : Cfg) (st : St) (b : Int) (hi : ObjInv c st) : ObjInv c (fill st b) := by
  unfold ObjInv fill at *; simpa using hi

/-! ### addressing under either layout -/

theorem layoutOffset_lt (cm : Bool) {i s : List Nat} (h : InShape i s) : computeOffset i (stridesOf cm s) < prod s := by
  unfold stridesOf; split
  · exact colOffset_lt h
  · exact offset_lt h

theorem layoutOffset_inj (cm : Bool) {i j s : List Nat} (hi : InShape i s) (hj : InShape j s)
    (h : computeOffset i (stridesOf cm s) = computeOffset j (stridesOf cm s)) : i = j := by
  unfold stridesOf at h; split at h
  · exact colOffset_injective hi hj h
  · exact offset_injective hi hj h

theorem offset_in_buffer (c : Cfg) (st : St) (hi : ObjInv c st) {i : Idx} (hI : InShape i st.shape) :
    computeOffset i st.strides < st.data.length := by
  obtain ⟨hlen, hstr, _, _⟩ := hi
  rw [hstr, hlen]; exact layoutOffset_lt _ hI

theorem cells_distinct (c : Cfg) (st : St) (hi : ObjInv c st) {i j : Idx} (hI : InShape i st.shape) (hJ : InShape j st.shape)
    (hne : i ≠ j) : computeOffset i st.strides ≠ computeOffset j st.strides := by
  obtain ⟨_, hstr, _, _⟩ := hi
  rw [hstr]
  exact fun h => hne (layoutOffset_inj _ hI hJ h)

theorem read_write (c : Cfg) (st : St) (hi : ObjInv c st) (i j : Idx) (hI : InShape i st.shape) (hJ : InShape j st.shape) (v : Int) :
    read? (write st i v) j = if i = j then some v else read? st j := by
  unfold read? write
  simp only [List.getElem?_set]
  by_cases hij : i = j
  · subst hij
    have hlt := offset_in_buffer c st hi hI
    simp [hlt]
  · have := cells_distinct c st hi hI hJ hij
    simp [hij, this]

theorem read_isSome (c : Cfg) (st : St) (hi : ObjInv c st) {i : Idx} (hI : InShape i st.shape) : ∃ v, read? st i = some v := by
  have hlt := offset_in_buffer c st hi hI
  exact ⟨st.data[computeOffset i st.strides], by simp [read?, hlt]⟩

/-! ### the cast loop -/

theorem write_shape (st : St) (i : Idx) (v : Int) : (write st i v).shape = st.shape := rfl

/-- rank `k` of the row-major enumeration is the index `ndindex s k`, and only that one -/
theorem ndindex_eq_iff {s : List Nat} {k : Nat} (hk : k < prod s) {idx : Idx} (hI : InShape idx s) :
    ndindex s k = idx ↔ computeOffset idx (strides s) = k := by
  have hp : Pos s := pos_of_inShape hI
  constructor
  · intro h; rw [← h]; exact offset_indices hp hk
  · intro h; rw [← h]; exact indices_offset hI

/-- after `k` iterations the first `k` logical elements (row-major rank) hold the converted source elements, the
    others are untouched; shape and invariant are kept -/
theorem castLoop_spec (cs cd : Cfg) (conv : Int → Int) (src r0 : St) (hs : ObjInv cs src) (hr : ObjInv cd r0)
    (hsh : r0.shape = src.shape) (k : Nat) (hk : k ≤ prod src.shape) :
    ∃ r, (List.range k).foldl (castStep conv src) (some r0) = some r ∧ r.shape = src.shape ∧ ObjInv cd r ∧
      ∀ idx, InShape idx src.shape →
        read? r idx = if computeOffset idx (strides src.shape) < k then (read? src idx).map conv else read? r0 idx := by
  induction k with
  | zero => exact ⟨r0, by simp, hsh, hr, fun idx _ => by simp⟩
  | succ k ih =>
    obtain ⟨r, hf, hrs, hri, hrd⟩ := ih (by omega)
    have hklt : k < prod src.shape := by omega
    have hpos : Pos src.shape := pos_of_prod_pos (by omega)
    have hsi : InShape (ndindex src.shape k) src.shape := indices_inShape hpos k
    obtain ⟨v, hv⟩ := read_isSome cs src hs hsi
    refine ⟨write r (ndindex src.shape k) (conv v), ?_, ?_, write_objInv _ _ _ _ hri, ?_⟩
    · rw [List.range_succ, List.foldl_append, hf]
      simp [castStep, hv, hrs]
    · simp [write_shape, hrs]
    · intro idx hI
      rw [read_write cd r hri _ _ (hrs ▸ hsi) (hrs ▸ hI)]
      by_cases he : ndindex src.shape k = idx
      · have ho := (ndindex_eq_iff hklt hI).1 he
        rw [if_pos he, ho, if_pos (Nat.lt_succ_self k), ← he, hv]; rfl
      · have ho : computeOffset idx (strides src.shape) ≠ k := fun h => he ((ndindex_eq_iff hklt hI).2 h)
        rw [if_neg he, hrd idx hI]
        by_cases hlt : computeOffset idx (strides src.shape) < k
        · rw [if_pos hlt, if_pos (by omega)]
        · rw [if_neg hlt, if_neg (by omega)]

/-- whatever the destination kind (even when its resize is refused) the loop terminates normally and the invariant of
    the destination kind holds -/
theorem castLoop_inv (cs cd : Cfg) (conv : Int → Int) (src r0 : St) (hs : ObjInv cs src) (hr : ObjInv cd r0)
    (k : Nat) (hk : k ≤ prod src.shape) :
    ∃ r, (List.range k).foldl (castStep conv src) (some r0) = some r ∧ ObjInv cd r := by
  induction k with
  | zero => exact ⟨r0, by simp, hr⟩
  | succ k ih =>
    obtain ⟨r, hf, hri⟩ := ih (by omega)
    have hpos : Pos src.shape := pos_of_prod_pos (by omega)
    have hsi : InShape (ndindex src.shape k) src.shape := indices_inShape hpos k
    obtain ⟨v, hv⟩ := read_isSome cs src hs hsi
    refine ⟨write r (ndindex r.shape k) (conv v), ?_, write_objInv _ _ _ _ hri⟩
    rw [List.range_succ, List.foldl_append, hf]
    simp [castStep, hv]

theorem castFits_shape (cd : Cfg) (s : List Nat) (h : castFits cd s = true) : (resize cd (init cd) s).1.shape = s := by
  unfold castFits at h
  unfold resize
  by_cases ha : accepts cd (init cd) s = true
  · simp [ha]
  · simp only [ha, Bool.false_or] at h
    obtain ⟨sk, bk, cm⟩ := cd
    cases sk <;> simp_all [init]

/-- an accepted resize establishes the invariant as soon as the parts a resize cannot change are right -/
theorem resize_accepted_objInv (c : Cfg) (st : St) (new : List Nat) (hacc : accepts c st new = true)
    (hk : match c.sk with | .fixedDim k => st.shape.length = k | _ => True)
    (hb : match c.bk with | .fixed n => st.data.length = n | _ => True) : ObjInv c (resize c st new).1 := by
  unfold resize
  rw [if_pos hacc]
  unfold accepts at hacc
  simp only [Bool.and_eq_true] at hacc
  obtain ⟨h1, h2⟩ := hacc
  refine ⟨by simp [resizeBuf_length], rfl, ?_, ?_⟩
  · cases hsk : c.sk <;> simp_all <;> omega
  · cases hbk : c.bk <;> simp_all [resizeBuf_length]

/-- the freshly constructed destination of a cast, after its resize, satisfies the invariant when the kind fits -/
theorem castRet_objInv (cd : Cfg) (hd : CfgOk cd) (s : List Nat) (h : castFits cd s = true) :
    ObjInv cd (resize cd (init cd) s).1 := by
  by_cases ha : accepts cd (init cd) s = true
  · apply resize_accepted_objInv _ _ _ ha
    · obtain ⟨sk, bk, cm⟩ := cd
      obtain ⟨h1, _, _⟩ := hd
      cases sk <;> simp_all [init]
      omega
    · obtain ⟨sk, bk, cm⟩ := cd
      cases bk <;> simp_all [init]
  · unfold castFits at h
    simp only [ha, Bool.false_or] at h
    have hr : (resize cd (init cd) s).1 = init cd := by simp [resize, ha]
    rw [hr]
    obtain ⟨sk, bk, cm⟩ := cd
    obtain ⟨_, h2, h3⟩ := hd
    cases sk <;> simp_all
    unfold ObjInv init
    refine ⟨?_, rfl, by simp, ?_⟩
    · cases bk <;> simp_all
    · cases bk <;> simp_all

theorem zipWith_le_self (s : List Nat) : (List.zipWith (fun a b => decide (a ≤ b)) s s).all id = true := by
  induction s with
  | nil => rfl
  | cons a t ih => simp [List.zipWith, ih]

/-! ### writes through mutable indexing views -/

/-- a write of `x` at in-shape index `i`: that logical element and that buffer cell change, nothing else does -/
def WriteExact (st : St) (i : Idx) : Prop :=
  InShape i st.shape ∧ computeOffset i st.strides < st.data.length ∧
  ∀ x : Int,
    (∀ j, InShape j st.shape → read? (write st i x) j = if i = j then some x else read? st j) ∧
    (write st i x).data = st.data.set (computeOffset i st.strides) x ∧
    (write st i x).data.length = st.data.length ∧
    (write st i x).data[computeOffset i st.strides]? = some x ∧
    (∀ k, k ≠ computeOffset i st.strides → (write st i x).data[k]? = st.data[k]?) ∧
    (write st i x).shape = st.shape ∧ (write st i x).strides = st.strides

/-- `mutable_indexing_t::operator()(d) = x` for EVERY destination index `d` of the view: the view maps `d` to a source
    index, and the write changes exactly that source element / buffer cell -/
def WriteThroughExact (st : St) (v : IxView) : Prop :=
  ∀ d, InShape d v.dst → ∃ i, v.map d = some i ∧ WriteExact st i

theorem writeExact_of_inShape (c : Cfg) (st : St) (hi : ObjInv c st) {i : Idx} (hI : InShape i st.shape) : WriteExact st i := by
  have hlt := offset_in_buffer c st hi hI
  refine ⟨hI, hlt, fun x => ⟨fun j hJ => read_write c st hi i j hI hJ x, rfl, by simp [write], ?_, ?_, rfl, rfl⟩⟩
  · simp [write, hlt]
  · intro k hk
    simp only [write, List.getElem?_set]
    rw [if_neg (fun h => hk h.symm)]

theorem writeThrough_of_inBounds (c : Cfg) (st : St) (hi : ObjInv c st) (v : IxView) (hsrc : v.src = st.shape)
    (hb : v.InBounds) (htot : ∀ d, InShape d v.dst → ∃ i, v.map d = some i) : WriteThroughExact st v := by
  intro d hd
  obtain ⟨i, hm⟩ := htot d hd
  exact ⟨i, hm, writeExact_of_inShape c st hi (hsrc ▸ hb d hd i hm)⟩

end NmVerif.NDObj
