// C12 harness, compiler vector extension context (256 bit)
#include "nmtools/array/eval/simd/vector_256.hpp"
#define C12_CTX  nmtools::array::simd::vector_256
#define C12_BITS 256
#include "h_c12_common.hpp"
