import NmVerif.Proto
import NmVerif.Arr
import NmVerif.Index.Checked
import NmVerif.Index.Transpose
import NmVerif.Index.Broadcast
import NmVerif.Index.Pad
import NmVerif.Index.Tile
import NmVerif.Index.Roll
namespace NmVerif.Driver.C15
open NmVerif NmVerif.Proto NmVerif.Index

def fmtView (v : IxView) : String := s!"ok shape={fmtNats v.dst} data={fmtInts v.provenance}"

/-- reshape with full argument checking (Checked.shapeReshape), element map as view::reshape -/
def reshapeChecked (src : Shape) (dst : List Int) : Option IxView :=
  (Checked.shapeReshape src dst).map (fun t =>
    ⟨src, t, fun d => some (computeIndices (computeOffset d (strides t)) src (strides src))⟩)

def handle : Handler := fun op a =>
  match op with
  | "v_reshape" => orBad do
      let s ← a.nats "shape"; let t ← a.ints "to"
      pure (match reshapeChecked s t with | some v => fmtView v | none => "nothing")
  | "v_pipe_reshape_transpose" => orBad do
      let s ← a.nats "shape"; let t ← a.ints "to"
      pure (match reshapeChecked s t with
        | none => "nothing"
        | some v => match transposeView v.dst none with
          | some w => fmtView (w.comp v)
          | none => "nothing")
  | "v_broadcast_to" => orBad do
      let s ← a.nats "shape"; let t ← a.nats "to"
      pure (match broadcastToView s t with | some v => fmtView v | none => "nothing")
  | "v_add" => orBad do
      -- operands data[k]=k and data[k]=1000+k: the sum decodes both source ids
      let s1 ← a.nats "shape"; let s2 ← a.nats "shape2"
      pure (match broadcastArraysViews [s1, s2] with
        | some [v1, v2] =>
          let d := (v1.provenance.zip v2.provenance).map (fun p => p.1 + p.2 + 1000)
          s!"ok shape={fmtNats v1.dst} data={fmtInts d}"
        | _ => "nothing")
  | "v_where3" => orBad do
      -- cond data k%2, x data 1000+k, y data 2000+k, all broadcast together (variadic broadcast_shape)
      let s1 ← a.nats "shape"; let s2 ← a.nats "shape2"; let s3 ← a.nats "shape3"
      pure (match broadcastArraysViews [s1, s2, s3] with
        | some [v1, v2, v3] =>
          let d := (v1.provenance.zip (v2.provenance.zip v3.provenance)).map
            (fun p => if p.1 % 2 != 0 then p.2.1 + 1000 else p.2.2 + 2000)
          s!"ok shape={fmtNats v1.dst} data={fmtInts d}"
        | _ => "nothing")
  | "v_pad" => orBad do
      let s ← a.nats "shape"; let w ← a.nats "width"
      pure (match padView s w with | some v => fmtView v | none => "nothing")
  | "v_tile" => orBad do
      let s ← a.nats "shape"; let r ← a.nats "reps"
      pure (match tileView s r with | some v => fmtView v | none => "nothing")
  | "v_roll" => orBad do
      let s ← a.nats "shape"; let sh ← a.int "shift"; let ax ← a.int "axis"
      pure (match rollView s sh ax with | some v => fmtView v | none => "nothing")
  | _ => none

end NmVerif.Driver.C15
