import NmVerif.Props.C04Gen
import NmVerif.Lemmas.Tile
import NmVerif.Lemmas.Pad
import NmVerif.Lemmas.Take
import NmVerif.Lemmas.Repeat
import NmVerif.Lemmas.Concatenate
import NmVerif.Lemmas.Roll
import NmVerif.Lemmas.Resize
import NmVerif.Index.Expand
import NmVerif.Lemmas.Diagonal
import NmVerif.Lemmas.SlidingWindow
import NmVerif.Lemmas.Split
import NmVerif.Lemmas.Expand
import NmVerif.Index.Stack
/-
  C04 — selecting / replicating / joining / generating views equal their reference result.
  Only the property theorems live here; models are in `NmVerif/Index/*.lean`, specs + helper lemmas in
  `NmVerif/Lemmas/*.lean`.  Every theorem quantifies over all ranks / extents / arguments.
-/
namespace NmVerif.Props.C04
open NmVerif NmVerif.Index

/-! ### tile -/

/-- `view::tile` never answers Nothing, keeps the source shape, and its result shape is NumPy's
    (ranks aligned on the right, missing entries are 1, extents multiplied). -/
theorem tile_shape (s r : List Nat) :
    ∃ v, tileView s r = some v ∧ v.src = s ∧ v.dst = tileShapeSpec s r :=
  ⟨_, rfl, rfl, shapeTile_eq_spec s r⟩

/-- element `d` of the tile view is the source element at `d mod shape` (prepended axes dropped): NumPy's element. -/
theorem tile_elem (s r : List Nat) (v : IxView) (hv : tileView s r = some v) (d : Idx) (hd : InShape d v.dst) :
    v.map d = some (tileIdxSpec s d) := by
  simp only [tileView, Option.some.injEq] at hv
  subst hv
  have hl := hd.length_eq
  simp only [shapeTile_length] at hl
  simp [indexTile_eq_spec s d (by omega)]

/-- no access of a tile view leaves the source (C02 obligation of this view kind) -/
theorem tile_inBounds (s r : List Nat) (v : IxView) (hv : tileView s r = some v) (hs : Pos s) : v.InBounds := by
  simp only [tileView, Option.some.injEq] at hv
  subst hv
  intro d hd i hi
  simp only [Option.some.injEq] at hi
  subst hi
  exact indexTile_inShape s r hs d hd

example : tileShapeSpec [2, 3] [2, 1, 2] = [2, 2, 6] := by decide
example : (tileView [2, 3] [2, 1, 2]).map (·.map [1, 1, 5]) = some (some [1, 2]) := by decide
example : InShape [1, 1, 5] (tileShapeSpec [2, 3] [2, 1, 2]) ∧ Pos [2, 3] := by decide

/-! ### pad (constant fill; widths `before ++ after`, one entry per axis and side) -/

/-- accepted widths: the view exists and has the documented shape `s + before + after` -/
theorem pad_shape (s before after : List Nat) (hb : before.length = s.length) (ha : after.length = s.length) :
    ∃ v, padView s (before ++ after) = some v ∧ v.src = s ∧ v.dst = padShapeSpec s before after := by
  simp [padView, shapePad_eq_spec s before after hb ha]

/-- a width list that does not have two entries per axis is refused (Nothing) -/
theorem pad_nothing (s w : List Nat) (h : 2 * s.length ≠ w.length) : padView s w = none := by
  simp [padView, shapePad_none s w h]

/-- inside the box `before ≤ d < before + s` the element is the source element at `d - before`, elsewhere the fill value -/
theorem pad_elem (s before after : List Nat) (hb : before.length = s.length) (ha : after.length = s.length)
    (v : IxView) (hv : padView s (before ++ after) = some v) (d : Idx) (hd : InShape d v.dst) :
    v.map d = padIdxSpec d s before := by
  simp only [padView, shapePad_eq_spec s before after hb ha, Option.map_some, Option.some.injEq] at hv
  subst hv
  have hl := hd.length_eq
  simp only [padShapeSpec, List.length_zipWith, hb, ha, Nat.min_self] at hl
  exact indexPadLoop_eq_spec d s before after hl hb

/-- a pad view never reads outside its source -/
theorem pad_inBounds (s before after : List Nat) (hb : before.length = s.length) (ha : after.length = s.length)
    (v : IxView) (hv : padView s (before ++ after) = some v) : v.InBounds := by
  intro d hd i hi
  rw [pad_elem s before after hb ha v hv d hd] at hi
  have hsrc : v.src = s := by
    simp only [padView, shapePad_eq_spec s before after hb ha, Option.map_some, Option.some.injEq] at hv
    subst hv; rfl
  rw [hsrc]
  unfold padIdxSpec at hi
  split at hi
  · rename_i hbox
    simp only [Option.some.injEq] at hi
    subst hi
    exact inBox_sub_inShape d s before hbox
  · simp at hi

example : padShapeSpec [2, 3] [1, 0] [0, 2] = [3, 5] := by decide
example : (padView [2, 3] [1, 0, 0, 2]).map (fun v => (v.map [1, 2], v.map [0, 2], v.map [1, 4])) =
    some (some [0, 2], none, none) := by decide

/-! ### take (every accepted axis incl. negative and None; index entries in `[-extent, extent)` incl. negative and
    repeated ones — NumPy's `np.take`).  The missing normalisation of negative axes / entries was repaired in /repo
    ("take.negative-axis", "take.negative-index"); the model follows the repaired code. -/

/-- NumPy's shape `s[:k] ++ [len ind] ++ s[k+1:]` for the normalised axis `k`; the view is never Nothing -/
theorem take_shape (s : Shape) (ind : List Int) (axis : Int) (k : Nat) (hk : normalizeAxis1 axis s.length = some k) :
    ∃ v, takeView s ind (some axis) = some v ∧ v.src = s ∧ v.dst = takeShapeSpec s ind.length k := by
  rw [takeView_axis_normalize s ind axis k hk]
  exact ⟨_, rfl, rfl, shapeTake_eq_spec s ind.length k (normalizeAxis1_some axis _ k hk).1⟩

/-- `out[…, x, …] = a[…, ind[x], …]`, a negative entry counting from the end of the axis (`normIndex`) -/
theorem take_elem (s : Shape) (ind : List Int) (axis : Int) (k : Nat) (hk : normalizeAxis1 axis s.length = some k)
    (v : IxView) (hv : takeView s ind (some axis) = some v) (d : Idx)
    (x n : Nat) (e : Int) (j : Nat) (hx : d[k]? = some x) (hn : s[k]? = some n) (he : ind[x]? = some e)
    (hj : normIndex n e = some j) :
    v.map d = some (d.set k j) := by
  rw [takeView_axis_normalize s ind axis k hk] at hv
  simp only [takeView, Option.some.injEq] at hv
  subst hv
  simp [indexTake_eq d s ind k x n e j hx hn he hj]

/-- entries inside `[-s[k], s[k])` ⇒ every read is inside the source -/
theorem take_inBounds (s : Shape) (ind : List Int) (axis : Int) (k : Nat) (hk : normalizeAxis1 axis s.length = some k)
    (n : Nat) (hn : s[k]? = some n) (hind : ∀ e ∈ ind, -(n : Int) ≤ e ∧ e < (n : Int)) (v : IxView)
    (hv : takeView s ind (some axis) = some v) : v.InBounds := by
  have hkn := (normalizeAxis1_some axis _ k hk).1
  obtain ⟨w, hw, h1, h2⟩ := take_shape s ind axis k hk
  rw [hv] at hw; simp only [Option.some.injEq] at hw; subst hw
  intro d hd i hi
  rw [h2, takeShapeSpec_eq_set s _ k hkn] at hd
  rw [h1]
  have hl := hd.length_eq
  simp at hl
  have hkd : k < d.length := by omega
  have hdk : d[k] < ind.length := by
    have := ((inShape_iff_forall _ _).1 hd).2 k hkd (by simpa using hkn)
    simpa using this
  have hmem := hind ind[d[k]] (List.getElem_mem hdk)
  obtain ⟨j, hj⟩ := normIndex_isSome n ind[d[k]] hmem.1 hmem.2
  rw [take_elem s ind axis k hk v hv d d[k] n ind[d[k]] j (by simp [hkd]) hn (by simp [hdk]) hj] at hi
  simp only [Option.some.injEq] at hi
  subst hi
  have e1 : s[k] = n := by simpa [hkn] using hn
  have hjs : j < s[k] := by rw [e1]; exact normIndex_lt n _ j hj
  exact inShape_set_of_set hd hkn hjs

/-- axis None: shape `[len ind]`, never Nothing -/
theorem takeNone_shape (s : Shape) (ind : List Int) :
    ∃ v, takeView s ind none = some v ∧ v.src = s ∧ v.dst = [ind.length] := ⟨_, rfl, rfl, rfl⟩

/-- axis None: `out[x] = flat(a)[ind[x]]`, a negative entry counting from the end of the flattened array -/
theorem takeNone_elem (s : Shape) (ind : List Int) (v : IxView) (hv : takeView s ind none = some v)
    (x : Nat) (e : Int) (j : Nat) (he : ind[x]? = some e) (hj : normIndex (prod s) e = some j) :
    v.map [x] = some (ndindex s j) := by
  simp only [takeView, Option.some.injEq] at hv
  subst hv
  simp [indexTakeNone, takeEntry_norm ind (prod s) x e j he hj, ndindex]

theorem takeNone_inBounds (s : Shape) (hs : Pos s) (ind : List Int) (v : IxView) (hv : takeView s ind none = some v) :
    v.InBounds := by
  simp only [takeView, Option.some.injEq] at hv
  subst hv
  intro d hd i hi
  simp only [Option.some.injEq] at hi
  subst hi
  cases d with
  | nil => simp [shapeTakeNone, InShape] at hd
  | cons x xs => exact indices_inShape hs _

example : takeShapeSpec [2, 3, 4] 5 1 = [2, 5, 4] := by decide
example : (takeView [2, 3] [2, 0, 0] (some 1)).map (·.map [1, 0]) = some (some [1, 2]) := by decide
example : normIndex 3 (-1) = some 2 := by decide
/-- negative entry and negative axis (regression guards for the repaired defects) -/
example : (takeView [3] [-1] (some 0)).bind (·.map [0]) = some [2] := by decide
example : (takeView [2, 3] [-1, 0] (some (-1))).map (fun v => (v.dst, v.map [1, 0])) = some ([2, 2], some [1, 2]) := by decide
example : (takeView [2, 3] [-2] none).bind (·.map [0]) = some [1, 1] := by decide

/-! ### repeat (every accepted axis: stated for the normalised position `k`; `repeat_axis_normalize` /
    `repeatList_axis_normalize` transfer each statement to every accepted axis incl. negative ones — the missing
    normalisation in `index::repeat` was repaired in /repo, "repeat.negative-axis"; axis None) -/

/-- an accepted (possibly negative) axis gives exactly the view of its normalised position -/
theorem repeat_axis_normalize (s : Shape) (r : Nat) (axis : Int) (k : Nat) (hk : normalizeAxis1 axis s.length = some k) :
    repeatView s r (some axis) = repeatView s r (some (k : Int)) := repeatView_axis_normalize s r axis k hk

theorem repeatList_axis_normalize (s : Shape) (rs : List Nat) (axis : Int) (k : Nat)
    (hk : normalizeAxis1 axis s.length = some k) :
    repeatListView s rs axis = repeatListView s rs (k : Int) := repeatListView_axis_normalize s rs axis k hk

/-- a destination index inside `replaceExtent s k m` has the rank of `s` and its `k`-th coordinate below `m` -/
private theorem coord_of_inShape {d : Idx} {s : Shape} {k m : Nat} (hk : k < s.length)
    (hd : InShape d (replaceExtent s k m)) : ∃ x, d[k]? = some x ∧ x < m ∧ InShape d (s.set k m) := by
  rw [replaceExtent_eq_set s k m hk] at hd
  have hl := hd.length_eq
  simp at hl
  have hkd : k < d.length := by omega
  refine ⟨d[k], by simp [hkd], ?_, hd⟩
  have := ((inShape_iff_forall _ _).1 hd).2 k hkd (by simpa using hk)
  simpa using this

/-- scalar repeats along axis `k`: NumPy's shape (extent `s[k]·r`), never Nothing -/
theorem repeat_shape (s : Shape) (r k : Nat) (hk : k < s.length) :
    ∃ v, repeatView s r (some (k : Int)) = some v ∧ v.src = s ∧ v.dst = replaceExtent s k (s[k] * r) := by
  simp [repeatView, shapeRepeat_eq_spec s r k hk]

/-- `out[…, x, …] = a[…, x / r, …]` -/
theorem repeat_elem (s : Shape) (r k : Nat) (hk : k < s.length) (v : IxView)
    (hv : repeatView s r (some (k : Int)) = some v) (d : Idx) (x : Nat) (hx : d[k]? = some x) :
    v.map d = some (d.set k (x / r)) := by
  simp only [repeatView, shapeRepeat_eq_spec s r k hk, Option.map_some, Option.some.injEq] at hv
  subst hv
  simp [indexRepeat_eq s r k x d hx]

theorem repeat_inBounds (s : Shape) (r k : Nat) (hk : k < s.length) (v : IxView)
    (hv : repeatView s r (some (k : Int)) = some v) : v.InBounds := by
  intro d hd i hi
  have hv' := hv
  simp only [repeatView, shapeRepeat_eq_spec s r k hk, Option.map_some, Option.some.injEq] at hv'
  subst hv'
  obtain ⟨x, hx, hxm, hd'⟩ := coord_of_inShape hk hd
  rw [repeat_elem s r k hk _ hv d x hx] at hi
  simp only [Option.some.injEq] at hi
  subst hi
  have hr : 0 < r := by
    rcases Nat.eq_zero_or_pos r with h | h
    · subst h; simp at hxm
    · exact h
  exact inShape_set_of_set hd' hk ((Nat.div_lt_iff_lt_mul hr).2 hxm)

/-- axis None: shape `[size·r]`, `out[x] = flat(a)[x / r]` -/
theorem repeatNone_shape (s : Shape) (r : Nat) :
    ∃ v, repeatView s r none = some v ∧ v.src = s ∧ v.dst = [prod s * r] := ⟨_, rfl, rfl, rfl⟩

theorem repeatNone_elem (s : Shape) (r : Nat) (v : IxView) (hv : repeatView s r none = some v) (x : Nat) :
    v.map [x] = some (ndindex s (x / r)) := by
  simp only [repeatView, Option.some.injEq] at hv
  subst hv
  simp [indexRepeatNone, ndindex]

theorem repeatNone_inBounds (s : Shape) (hs : Pos s) (r : Nat) (v : IxView) (hv : repeatView s r none = some v) :
    v.InBounds := by
  simp only [repeatView, Option.some.injEq] at hv
  subst hv
  intro d hd i hi
  simp only [Option.some.injEq] at hi
  subst hi
  cases d with
  | nil => simp [shapeRepeatNone, InShape] at hd
  | cons x xs => exact indices_inShape hs _

/-- one count per entry: NumPy's shape (extent `sum rs`) -/
theorem repeatList_shape (s : Shape) (rs : List Nat) (k : Nat) (hk : k < s.length) :
    ∃ v, repeatListView s rs (k : Int) = some v ∧ v.src = s ∧ v.dst = replaceExtent s k (sum rs) := by
  simp [repeatListView, shapeRepeatList_eq_spec s rs k hk]

/-- position `x` of the axis reads source position `np.repeat(arange(len rs), rs)[x]` -/
theorem repeatList_elem (s : Shape) (rs : List Nat) (k : Nat) (hk : k < s.length) (v : IxView)
    (hv : repeatListView s rs (k : Int) = some v) (d : Idx) (hd : InShape d v.dst) :
    ∃ x j, d[k]? = some x ∧ (repeatSrc rs 0)[x]? = some j ∧ j < rs.length ∧ v.map d = some (d.set k j) := by
  simp only [repeatListView, shapeRepeatList_eq_spec s rs k hk, Option.map_some, Option.some.injEq] at hv
  subst hv
  obtain ⟨x, hx, hxm, _⟩ := coord_of_inShape hk hd
  have := repeatSrc_getElem rs 0 x hxm
  refine ⟨x, firstAbove rs x, hx, by simpa using this.1, this.2, ?_⟩
  simp [indexRepeatList_eq s rs k x d hx]

theorem repeatList_inBounds (s : Shape) (rs : List Nat) (k : Nat) (hk : k < s.length) (hrs : rs.length = s[k])
    (v : IxView) (hv : repeatListView s rs (k : Int) = some v) : v.InBounds := by
  intro d hd i hi
  obtain ⟨x, j, hx, _, hj, hm⟩ := repeatList_elem s rs k hk v hv d hd
  simp only [repeatListView, shapeRepeatList_eq_spec s rs k hk, Option.map_some, Option.some.injEq] at hv
  subst hv
  obtain ⟨_, _, _, hd'⟩ := coord_of_inShape hk hd
  rw [hm] at hi
  simp only [Option.some.injEq] at hi
  subst hi
  have hjs : j < s[k] := by omega
  exact inShape_set_of_set hd' hk hjs

/-- negative axis (regression guard for the repaired defect) -/
example : (repeatView [1, 2] 2 (some (-1))).map (fun v => (v.dst, v.map [0, 3])) = some ([1, 4], some [0, 1]) := by decide

example : replaceExtent [2, 3, 4] 1 6 = [2, 6, 4] := by decide
example : repeatSrc [1, 2, 0, 3] 0 = [0, 1, 1, 3, 3, 3] := by decide
example : (repeatListView [2, 3] [1, 2, 0] 1).map (fun v => (v.dst, v.map [1, 2])) = some ([2, 3], some [1, 1]) := by decide

/-! ### concatenate (two operands; every accepted axis: stated for the normalised position `k`,
    `concatenate_axis_normalize` transfers each statement to every accepted axis incl. negative ones — the missing
    normalisation was repaired in /repo, "concatenate.negative-axis"; axis None) -/

/-- an accepted (possibly negative) axis gives exactly the view of its normalised position -/
theorem concatenate_axis_normalize (a b : Shape) (axis : Int) (k : Nat) (hk : normalizeAxis1 axis a.length = some k) :
    concatenateView a b (some axis) = concatenateView a b (some (k : Int)) := concatenateView_axis_normalize a b axis k hk

/-- compatible operands: `shape_concatenate` succeeds with NumPy's shape (extent `a[k] + b[k]` on the axis) -/
theorem concatenate_shape (a b : Shape) (k : Nat) (h : ConcatCompatible a b k) :
    ∃ v x y, concatenateView a b (some (k : Int)) = some v ∧ a[k]? = some x ∧ b[k]? = some y ∧
      (shapeConcatenate a b (k : Int)).1 = true ∧ v.srcA = a ∧ v.srcB = b ∧ v.dst = replaceExtent a k (x + y) := by
  obtain ⟨x, y, hx, hy, hs⟩ := shapeConcatenate_eq_spec a b k h
  exact ⟨_, x, y, rfl, hx, hy, by rw [hs], rfl, rfl, by simp [hs]⟩

/-- `out[d] = a[d]` when `d[k] < a[k]`, else `b[d with d[k] - a[k]]` -/
theorem concatenate_elem (a b : Shape) (k : Nat) (h : ConcatCompatible a b k) (v : IxView2)
    (hv : concatenateView a b (some (k : Int)) = some v) (d : Idx) (hd : InShape d v.dst) :
    ∃ x aa, d[k]? = some x ∧ a[k]? = some aa ∧
      v.map d = if x < aa then some (false, d) else some (true, d.set k (x - aa)) := by
  obtain ⟨aa, ba, ha, hb, hs⟩ := shapeConcatenate_eq_spec a b k h
  simp only [concatenateView, Option.some.injEq] at hv
  subst hv
  simp only [hs] at hd
  obtain ⟨x, hx, hxm, hd'⟩ := coord_of_inShape h.2.1 hd
  have hl := hd'.length_eq
  simp at hl
  refine ⟨x, aa, hx, ha, ?_⟩
  simp only
  rw [indexConcatenate_eq a b d k x aa ba hl (by rw [hl]; exact h.1) ha hb hx]
  by_cases h1 : x < aa
  · simp [h1]
  · have h2 : x < ba + aa := by omega
    simp [h1, h2]

/-- both operands are only read inside their shapes -/
theorem concatenate_inBounds (a b : Shape) (k : Nat) (h : ConcatCompatible a b k) (v : IxView2)
    (hv : concatenateView a b (some (k : Int)) = some v) : v.InBounds := by
  intro d hd fl i hi
  obtain ⟨x, aa, hx, ha, hm⟩ := concatenate_elem a b k h v hv d hd
  obtain ⟨aa', ba, ha', hb, hs⟩ := shapeConcatenate_eq_spec a b k h
  have : aa' = aa := by rw [ha] at ha'; simpa using ha'.symm
  subst this
  simp only [concatenateView, Option.some.injEq] at hv
  subst hv
  simp only [hs] at hd
  obtain ⟨x', hx', hxm, hd'⟩ := coord_of_inShape h.2.1 hd
  have : x' = x := by rw [hx] at hx'; simpa using hx'.symm
  subst this
  obtain ⟨hl, hk, hc⟩ := h
  have hak : a[k] = aa' := by simpa [hk] using ha
  have hbk : b[k] = ba := by simpa [show k < b.length by omega] using hb
  rw [hm] at hi
  by_cases h1 : x' < aa'
  · simp only [h1, if_true, Option.some.injEq, Prod.mk.injEq] at hi
    obtain ⟨rfl, rfl⟩ := hi
    simp only [Bool.false_eq_true, if_false]
    have := inShape_set_of_set (x := x') hd' hk (by omega)
    have e : d.set k x' = d := by
      obtain ⟨hlt, hval⟩ := List.getElem?_eq_some_iff.1 hx
      subst hval
      exact List.set_getElem_self hlt
    rwa [e] at this
  · simp only [h1, if_false, Option.some.injEq, Prod.mk.injEq] at hi
    obtain ⟨rfl, rfl⟩ := hi
    simp only [if_true]
    -- b = a.set k b[k]
    have hb_eq : b = a.set k ba := by
      apply List.ext_getElem?; intro j
      by_cases hj : k = j
      · subst hj; simp [List.getElem?_set, hk, hb]
      · simp [List.getElem?_set, hj, (hc j (Ne.symm hj)).symm]
    have hd'' : InShape d (b.set k (aa' + ba)) := by rw [hb_eq]; simpa using hd'
    exact inShape_set_of_set hd'' (by omega) (by omega)

/-- axis None: shape `[size a + size b]` -/
theorem concatenateNone_shape (a b : Shape) :
    ∃ v, concatenateView a b none = some v ∧ v.srcA = a ∧ v.srcB = b ∧ v.dst = [prod a + prod b] :=
  ⟨_, rfl, rfl, rfl, rfl⟩

/-- axis None: the flattened left operand followed by the flattened right operand -/
theorem concatenateNone_elem (a b : Shape) (v : IxView2) (hv : concatenateView a b none = some v) (x : Nat)
    (hx : x < prod a + prod b) :
    v.map [x] = if x < prod a then some (false, ndindex a x) else some (true, ndindex b (x - prod a)) := by
  simp only [concatenateView, Option.some.injEq] at hv
  subst hv
  by_cases h1 : x < prod a
  · simp [indexConcatenateNone, h1, ndindex]
  · simp [indexConcatenateNone, h1, hx, ndindex]

theorem concatenateNone_inBounds (a b : Shape) (ha : Pos a) (hb : Pos b) (v : IxView2)
    (hv : concatenateView a b none = some v) : v.InBounds := by
  intro d hd fl i hi
  have hv' := hv
  simp only [concatenateView, Option.some.injEq] at hv'
  subst hv'
  cases d with
  | nil => simp [shapeConcatenateNone, InShape] at hd
  | cons x xs =>
    cases xs with
    | cons _ _ => simp [shapeConcatenateNone, InShape] at hd
    | nil =>
      have hx : x < prod a + prod b := by simpa [shapeConcatenateNone, InShape] using hd
      rw [concatenateNone_elem a b _ hv x hx] at hi
      by_cases h1 : x < prod a
      · simp only [h1, if_true, Option.some.injEq, Prod.mk.injEq] at hi
        obtain ⟨rfl, rfl⟩ := hi
        exact indices_inShape ha _
      · simp only [h1, if_false, Option.some.injEq, Prod.mk.injEq] at hi
        obtain ⟨rfl, rfl⟩ := hi
        exact indices_inShape hb _

/-- negative axis (regression guard for the repaired defect) -/
example : (concatenateView [1] [1] (some (-1))).map (·.dst) = some [2] := by decide

example : ConcatCompatible [2, 3] [2, 1] 1 := ⟨rfl, by decide, by intro j hj; cases j with | zero => rfl | succ j => cases j with | zero => exact absurd rfl hj | succ j => rfl⟩
example : (concatenateView [2, 3] [2, 1] (some 1)).map (fun v => (v.dst, v.map [1, 2], v.map [1, 3])) =
    some ([2, 4], some (false, [1, 2]), some (true, [1, 0])) := by decide

/-! ### roll (every shift sign and magnitude; accepted axes incl. negative; axis None; several axes, repeats included).
    The single-wrap defect (DESIGN F5) was repaired in /repo ("fix: roll wraps shifts larger than the extent"):
    `normalize_roll_index` is now `index % n` (+ `n` if negative), proved here to be the mathematical modulo. -/

/-- an axis in `[-dim, dim)` is accepted and the shape is unchanged (NumPy) -/
theorem roll_shape (s : Shape) (shift axis : Int) (k : Nat) (hk : normalizeAxis1 axis s.length = some k) :
    ∃ v, rollView s shift axis = some v ∧ v.src = s ∧ v.dst = s := by
  simp [rollView, rollAxesView, shapeRoll, hk]

/-- an axis outside `[-dim, dim)` is refused -/
theorem roll_nothing (s : Shape) (shift axis : Int) (h : axis < -(s.length : Int) ∨ (s.length : Int) ≤ axis) :
    rollView s shift axis = none := by
  simp [rollView, rollAxesView, shapeRoll, normalizeAxis1_none axis s.length h]

/-- `out[…, x, …] = a[…, (x - shift) mod n, …]` for every accepted axis (negative ones included) and EVERY shift -/
theorem roll_elem (s : Shape) (shift axis : Int) (k : Nat) (hk : normalizeAxis1 axis s.length = some k)
    (v : IxView) (hv : rollView s shift axis = some v) (d : Idx) (hd : InShape d s)
    (n x : Nat) (hn : s[k]? = some n) (hx : d[k]? = some x) :
    v.map d = some (d.set k (rollSrc n x shift)) := by
  simp only [rollView, rollAxesView, shapeRoll, hk, List.all_cons, List.all_nil, Option.isSome_some, Bool.and_self,
    if_true, Option.map_some, Option.some.injEq] at hv
  subst hv
  have hkn := (normalizeAxis1_some axis _ k hk).1
  have hkd : k < d.length := by have := hd.length_eq; omega
  have e1 : s[k] = n := by simpa [hkn] using hn
  have e2 : d[k] = x := by simpa [hkd] using hx
  subst e1 e2
  simp [indexRollU_single s d shift axis k hk hd]

theorem roll_inBounds (s : Shape) (shift axis : Int) (k : Nat) (hk : normalizeAxis1 axis s.length = some k)
    (v : IxView) (hv : rollView s shift axis = some v) : v.InBounds := by
  have hkn := (normalizeAxis1_some axis _ k hk).1
  have hsrc : v.src = s ∧ v.dst = s := by
    obtain ⟨w, hw, h3, h4⟩ := roll_shape s shift axis k hk
    rw [hv] at hw; simp only [Option.some.injEq] at hw; subst hw; exact ⟨h3, h4⟩
  intro d hd i hi
  rw [hsrc.2] at hd
  rw [hsrc.1]
  have hkd : k < d.length := by have := hd.length_eq; omega
  rw [roll_elem s shift axis k hk v hv d hd s[k] d[k] (by simp [hkn]) (by simp [hkd])] at hi
  simp only [Option.some.injEq] at hi
  subst hi
  have hpos : 0 < s[k] := by
    have := ((inShape_iff_forall _ _).1 hd).2 k hkd hkn
    omega
  have := inShape_set (k := k) (x := rollSrc s[k] d[k] shift) (e := s[k]) hd (rollSrc_lt s[k] _ shift hpos)
  simpa using this

/-- axis None: same shape, never Nothing -/
theorem rollNone_shape (s : Shape) (shift : Int) :
    ∃ v, rollNoneView s shift = some v ∧ v.src = s ∧ v.dst = s := by
  simp [rollNoneView, rollView, rollAxesView, shapeRoll, normalizeAxis1, IxView.comp, reshapeViewRaw]

/-- axis None: `out.flat[j] = a.flat[(j - shift) mod size]` for every shift -/
theorem rollNone_elem (s : Shape) (shift : Int)
    (v : IxView) (hv : rollNoneView s shift = some v) (d : Idx) (hd : InShape d s) :
    v.map d = some (ndindex s (rollSrc (prod s) (computeOffset d (strides s)) shift)) := by
  have hoff := offset_lt hd
  have hk0 : normalizeAxis1 0 [prod s].length = some 0 := by simp [normalizeAxis1]
  obtain ⟨r, hr, hr1, hr2⟩ := roll_shape [prod s] shift 0 0 hk0
  have hmap := roll_elem [prod s] shift 0 0 hk0 r hr [computeOffset d (strides s)] (by simp [InShape, hoff])
    (prod s) (computeOffset d (strides s)) (by simp) (by simp)
  simp only [rollNoneView, hr, Option.map_some, Option.some.injEq] at hv
  subst hv
  have e0 : reshapeIdx [prod s] s d = [computeOffset d (strides s)] := by
    simp [reshapeIdx, strides, prod, computeIndices, Nat.mod_eq_of_lt hoff]
  simp only [IxView.comp, reshapeViewRaw, Option.bind_some, e0, hmap, List.set_cons_zero]
  simp [reshapeIdx, strides, prod, computeOffset, ndindex]

theorem rollNone_inBounds (s : Shape) (hs : Pos s) (shift : Int)
    (v : IxView) (hv : rollNoneView s shift = some v) : v.InBounds := by
  obtain ⟨w, hw, h3, h4⟩ := rollNone_shape s shift
  rw [hv] at hw; simp only [Option.some.injEq] at hw; subst hw
  intro d hd i hi
  rw [h4] at hd
  rw [rollNone_elem s shift v hv d hd] at hi
  simp only [Option.some.injEq] at hi
  subst hi
  rw [h3]
  exact indices_inShape hs _

/-- several axes: accepted (each in `[-dim, dim)`) ⇒ the view exists with the source shape -/
theorem rollAxes_shape (s : Shape) (shifts axes : List Int) (ks : List Nat) (hk : AxesNorm s.length axes ks) :
    ∃ v, rollAxesView s shifts axes = some v ∧ v.src = s ∧ v.dst = s := by
  simp [rollAxesView, shapeRoll_of_axesNorm s axes ks hk]

/-- several accepted axes (negative and REPEATED ones included), one shift each (any magnitude): coordinate `j` reads
    `(d[j] - Σ shifts of axis j) mod s[j]` — NumPy's rule (`shiftSum` is 0 for an axis that is not listed, and
    `rollSrc n x 0 = x`) -/
theorem rollAxes_elem (s : Shape) (shifts axes : List Int) (ks : List Nat) (hk : AxesNorm s.length axes ks)
    (hlen : shifts.length = axes.length)
    (v : IxView) (hv : rollAxesView s shifts axes = some v) (d : Idx) (hd : InShape d s) :
    ∃ r, v.map d = some r ∧ r.length = d.length ∧
      ∀ j, j < d.length → ∃ n x : Nat, s[j]? = some n ∧ d[j]? = some x ∧
        r[j]? = some (rollSrc n x (shiftSum ks shifts j)) := by
  simp only [rollAxesView, shapeRoll_of_axesNorm s axes ks hk, Option.map_some, Option.some.injEq] at hv
  subst hv
  have hl := hd.length_eq
  obtain ⟨r, hr, hrl, hspec⟩ := indexRollLoop_sum s d hd axes ks shifts d (fun _ => 0) hk hlen rfl (by
    intro j hj
    have hjs : j < s.length := by omega
    have hx := ((inShape_iff_forall _ _).1 hd).2 j hj hjs
    exact ⟨s[j], d[j], by simp [hjs], by simp [hj], by simp [hj, rollSrc_zero s[j] d[j] hx]⟩)
  refine ⟨r, by simp [indexRollU, hr], hrl, ?_⟩
  intro j hj
  obtain ⟨n, x, h1, h2, h3⟩ := hspec j hj
  exact ⟨n, x, h1, h2, by simpa using h3⟩

theorem rollAxes_inBounds (s : Shape) (shifts axes : List Int) (ks : List Nat) (hk : AxesNorm s.length axes ks)
    (hlen : shifts.length = axes.length)
    (v : IxView) (hv : rollAxesView s shifts axes = some v) : v.InBounds := by
  obtain ⟨w, hw, h3, h4⟩ := rollAxes_shape s shifts axes ks hk
  rw [hv] at hw; simp only [Option.some.injEq] at hw; subst hw
  intro d hd i hi
  rw [h4] at hd
  rw [h3]
  obtain ⟨r, hr, hrl, hspec⟩ := rollAxes_elem s shifts axes ks hk hlen v hv d hd
  rw [hr] at hi
  simp only [Option.some.injEq] at hi
  subst hi
  have hl := hd.length_eq
  rw [inShape_iff_forall]
  refine ⟨by omega, ?_⟩
  intro j h1 h2
  have hdj := ((inShape_iff_forall _ _).1 hd).2 j (by omega) h2
  obtain ⟨n, x, hn, hx, hrj⟩ := hspec j (by omega)
  have e1 : s[j] = n := by simpa [h2] using hn
  have e2 : r[j] = rollSrc n x (shiftSum ks shifts j) := by simpa [h1] using hrj
  rw [e1, e2]
  exact rollSrc_lt n x _ (by omega)

/-- a repeated axis adds its shifts up (regression guard for the repaired defect) -/
example : (rollAxesView [3] [1, 1] [0, -1]).bind (·.map [0]) = some [rollSrc 3 0 (1 + 1)] := by decide
example : shiftSum [0, 1, 0] [1, 5, 2] 0 = 3 := by decide

/-- shifts beyond the extent wrap (regression guard for the repaired single-wrap defect) -/
example : (rollView [3] 7 0).bind (·.map [0]) = some [rollSrc 3 0 7] := by decide
example : (rollView [3] (-8) 0).bind (·.map [1]) = some [0] := by decide
example : normalizeAxis1 (-1) 2 = some 1 := by decide
example : AxesNorm 2 [-1, 0] [1, 0] := .cons (by decide) (.cons (by decide) .nil)
example : (rollAxesView [2, 3] [1, -2] [-1, 0]).map (·.map [1, 2]) = some (some [1, 1]) := by decide
example : (rollView [2, 3] (-1) (-1)).map (·.map [1, 2]) = some (some [1, 0]) := by decide
example : rollSrc 3 2 (-1) = 0 := by decide
example : (rollNoneView [2, 3] 1).map (·.map [1, 0]) = some (some [0, 2]) := by decide

/-! ### resize (nearest-neighbour sampling: documented definition `src index = ⌊d · src / dst⌋` per axis) -/

/-- equal rank and positive target extents: the view exists and has the requested shape -/
theorem resize_shape (s t : Shape) (hl : s.length = t.length) (ht : Pos t) :
    ∃ v, resizeView s t = some v ∧ v.src = s ∧ v.dst = t := by
  have : (t.all fun e => decide (0 < e)) = true := by
    simp only [List.all_eq_true, decide_eq_true_eq]; exact ht
  simp [resizeView, shapeResize, hl, this]

/-- a rank mismatch or a non-positive target extent is refused -/
theorem resize_nothing (s t : Shape) (h : s.length ≠ t.length ∨ ¬ Pos t) : resizeView s t = none := by
  have : ¬ (s.length = t.length ∧ (t.all fun e => decide (0 < e)) = true) := by
    rintro ⟨h1, h2⟩
    rcases h with h | h
    · exact h h1
    · apply h
      simp only [List.all_eq_true, decide_eq_true_eq] at h2
      exact h2
  simp only [resizeView, shapeResize, this, if_false, Option.map_none]

theorem resize_elem (s t : Shape) (v : IxView) (hv : resizeView s t = some v) (d : Idx) :
    v.map d = some (resizeIdxSpec d s t) := by
  simp only [resizeView, shapeResize] at hv
  split at hv
  · simp only [Option.map_some, Option.some.injEq] at hv
    subst hv
    simp [indexResize_eq_spec]
  · simp at hv

theorem resize_inBounds (s t : Shape) (hs : Pos s) (v : IxView) (hv : resizeView s t = some v) : v.InBounds := by
  simp only [resizeView, shapeResize] at hv
  split at hv
  · rename_i h
    simp only [Option.map_some, Option.some.injEq] at hv
    subst hv
    intro d hd i hi
    simp only [Option.some.injEq] at hi
    subst hi
    exact indexResize_inShape d s t h.1 hs hd
  · simp at hv

example : (resizeView [2, 3] [4, 2]).map (fun v => (v.dst, v.map [3, 1])) = some ([4, 2], some [1, 1]) := by decide

/-! ### compress (`compress(cond, a, axis) = take(a, nonzero(cond), axis)`; every accepted axis incl. negative
    (repaired in /repo: "compress.negative-axis") and None) -/

/-- the kept positions are exactly positions of non-zero condition entries -/
theorem compress_positions (cond : List Int) :
    ∀ j ∈ nonzeroIdx cond, j < cond.length ∧ ∃ c, cond[j]? = some c ∧ c ≠ 0 := nonzeroIdx_spec cond

/-- an accepted (possibly negative) axis gives exactly the view of its normalised position -/
theorem compress_axis_normalize (s : Shape) (cond : List Int) (axis : Int) (k : Nat)
    (hk : normalizeAxis1 axis s.length = some k) :
    compressView s cond (some axis) = compressView s cond (some (k : Int)) :=
  takeView_axis_normalize s _ axis k hk

/-- NumPy's shape: the axis keeps as many entries as the condition has non-zero ones -/
theorem compress_shape (s : Shape) (cond : List Int) (axis : Int) (k : Nat) (hk : normalizeAxis1 axis s.length = some k) :
    ∃ v, compressView s cond (some axis) = some v ∧ v.src = s ∧
      v.dst = takeShapeSpec s (nonzeroIdx cond).length k := by
  obtain ⟨v, hv, h1, h2⟩ := take_shape s ((nonzeroIdx cond).map Int.ofNat) axis k hk
  exact ⟨v, hv, h1, by simpa using h2⟩

/-- entry `x` of the axis reads the `x`-th non-zero position of the condition -/
theorem compress_elem (s : Shape) (cond : List Int) (axis : Int) (k : Nat) (hk : normalizeAxis1 axis s.length = some k)
    (v : IxView) (hv : compressView s cond (some axis) = some v) (d : Idx)
    (x j : Nat) (hx : d[k]? = some x) (hj : (nonzeroIdx cond)[x]? = some j) :
    v.map d = some (d.set k j) := by
  rw [compress_axis_normalize s cond axis k hk] at hv
  simp only [compressView, takeView, Option.some.injEq] at hv
  subst hv
  have hj' : ((nonzeroIdx cond).map Int.ofNat)[x]? = some (j : Int) := by rw [List.getElem?_map, hj]; rfl
  simp [indexTake_eq_nat d s _ k x j hx hj']

/-- a condition no longer than the axis never reads outside the source -/
theorem compress_inBounds (s : Shape) (cond : List Int) (axis : Int) (k : Nat) (hk : normalizeAxis1 axis s.length = some k)
    (n : Nat) (hn : s[k]? = some n) (hc : cond.length ≤ n)
    (v : IxView) (hv : compressView s cond (some axis) = some v) : v.InBounds := by
  apply take_inBounds s _ axis k hk n hn _ v hv
  intro e he
  simp only [List.mem_map] at he
  obtain ⟨j, hj, rfl⟩ := he
  have := (nonzeroIdx_spec cond j hj).1
  constructor
  · have : (0 : Int) ≤ (j : Int) := Int.natCast_nonneg j
    show -(n : Int) ≤ (j : Int)
    omega
  · show (j : Int) < (n : Int)
    omega

example : nonzeroIdx [0, 1, 0, 1] = [1, 3] := by decide
example : (compressView [2, 4] [0, 1, 0, 1] (some 1)).map (fun v => (v.dst, v.map [1, 1])) = some ([2, 2], some [1, 3]) := by decide
example : (compressView [2, 4] [0, 1, 0, 1] (some (-1))).map (fun v => (v.dst, v.map [1, 1])) = some ([2, 2], some [1, 3]) := by decide

/-! ### expand (spacing insertion with a fill value: documented definition — extent `n + (n-1)·spacing` on the axis,
    source entry `q` at position `q·(spacing+1)`, fill elsewhere).  `expand_*`: one axis (any accepted sign);
    `expandAxes_*`: any list of accepted axes (any sign, repeats allowed) with one spacing per entry (a scalar spacing is
    the constant list). -/

theorem expand_shape (s : Shape) (axis : Int) (sp k e : Nat) (hk : normalizeAxis1 axis s.length = some k)
    (he : s[k]? = some e) :
    ∃ v, expandView s [axis] [sp] = some v ∧ v.src = s ∧ v.dst = replaceExtent s k (e + (e - 1) * sp) := by
  have hkn := (normalizeAxis1_some axis _ k hk).1
  simp [expandView, normalizeAxes, hk, shapeExpand, he, replaceExtent_eq_set s k _ hkn]

/-- position `x` of the axis holds source entry `x / (sp+1)` when `sp+1` divides `x`, the fill value otherwise -/
theorem expand_elem (s : Shape) (axis : Int) (sp k : Nat) (hk : normalizeAxis1 axis s.length = some k)
    (v : IxView) (hv : expandView s [axis] [sp] = some v) (d : Idx) (x : Nat) (hx : d[k]? = some x) :
    v.map d = if x % (sp + 1) = 0 then some (d.set k (x / (sp + 1))) else none := by
  simp only [expandView, normalizeAxes, List.mapM_cons, List.mapM_nil, hk, Option.pure_def, Option.bind_eq_bind,
    Option.bind_some, Option.map_some, Option.some.injEq] at hv
  subst hv
  simp only [indexExpand, hx]
  by_cases h : x % (sp + 1) = 0
  · simp [h]
  · have : x % (sp + 1) > 0 := by omega
    simp [h, this]

theorem expand_inBounds (s : Shape) (axis : Int) (sp k : Nat) (hk : normalizeAxis1 axis s.length = some k)
    (v : IxView) (hv : expandView s [axis] [sp] = some v) : v.InBounds := by
  have hkn := (normalizeAxis1_some axis _ k hk).1
  obtain ⟨w, hw, h1, h2⟩ := expand_shape s axis sp k s[k] hk (by simp [hkn])
  rw [hv] at hw; simp only [Option.some.injEq] at hw; subst hw
  intro d hd i hi
  rw [h2] at hd
  rw [h1]
  obtain ⟨x, hx, hxm, hd'⟩ := coord_of_inShape hkn hd
  rw [expand_elem s axis sp k hk v hv d x hx] at hi
  split at hi
  · rename_i hdiv
    simp only [Option.some.injEq] at hi
    subst hi
    apply inShape_set_of_set hd' hkn
    -- x = q (sp+1) < e + (e-1) sp  ⇒  q < e
    have hq : x = (x / (sp + 1)) * (sp + 1) := by
      have := Nat.div_add_mod x (sp + 1)
      rw [hdiv, Nat.add_zero, Nat.mul_comm] at this
      exact this.symm
    apply Classical.byContradiction
    intro hcon
    have hge : s[k] ≤ x / (sp + 1) := by omega
    have h3 : s[k] * (sp + 1) ≤ (x / (sp + 1)) * (sp + 1) := Nat.mul_le_mul_right _ hge
    have h4 : (s[k] - 1) * sp ≤ s[k] * sp := Nat.mul_le_mul_right _ (by omega)
    have h5 : s[k] * (sp + 1) = s[k] * sp + s[k] := by rw [Nat.mul_add, Nat.mul_one]
    omega
  · simp at hi

example : (expandView [2, 3] [-1] [2]).map (fun v => (v.dst, v.map [1, 3], v.map [1, 4])) =
    some ([2, 7], some [1, 1], none) := by decide

/-- several axes: the factor of an axis that is listed once is its `spacing + 1`, of an axis that is not listed 1
    (so the statements below are the documented per-axis definition; a repeated axis multiplies its factors, which is
    what inserting the spacings one after the other gives) -/
theorem expandAxes_factor (ks sps : List Nat) (hn : ks.Nodup) :
    (∀ (i k sp : Nat), ks[i]? = some k → sps[i]? = some sp → expandFactor ks sps k = sp + 1) ∧
    (∀ j, j ∉ ks → expandFactor ks sps j = 1) :=
  ⟨fun i k sp hk hs => expandFactor_nodup ks sps hn i k sp hk hs, fun j hj => expandFactor_not_mem ks sps j hj⟩

/-- accepted axes (each in `[-dim, dim)`), one spacing per axis: the view exists, keeps the rank, and axis `j` has extent
    `n + (n-1)·(factor j - 1)` — `n + (n-1)·spacing` on a listed axis, `n` elsewhere -/
theorem expandAxes_shape (s : Shape) (axes : List Int) (sps ks : List Nat) (hk : AxesNorm s.length axes ks)
    (hl : sps.length = axes.length) :
    ∃ v, expandView s axes sps = some v ∧ v.src = s ∧ v.dst.length = s.length ∧
      ∀ j (hj : j < s.length), v.dst[j]? = some (s[j] + (s[j] - 1) * (expandFactor ks sps j - 1)) := by
  have hspec := shapeExpand_spec ks sps (by rw [hk.length_eq, hl]) s hk.lt
  refine ⟨⟨s, shapeExpand s ks sps, fun d => indexExpand d ks sps⟩, ?_, rfl, hspec.1, hspec.2⟩
  simp [expandView, normalizeAxes_of_axesNorm hk]

/-- the fill value wherever some coordinate is not a multiple of its factor; otherwise the source element whose
    coordinates are the destination coordinates divided by their factors -/
theorem expandAxes_elem (s : Shape) (axes : List Int) (sps ks : List Nat) (hk : AxesNorm s.length axes ks)
    (hl : sps.length = axes.length) (v : IxView) (hv : expandView s axes sps = some v) (d : Idx)
    (hd : d.length = s.length) :
    ((∃ j x, d[j]? = some x ∧ x % expandFactor ks sps j ≠ 0) → v.map d = none) ∧
    ((∀ j x, d[j]? = some x → x % expandFactor ks sps j = 0) →
      ∃ q, v.map d = some q ∧ q.length = d.length ∧ ∀ j x, d[j]? = some x → q[j]? = some (x / expandFactor ks sps j)) := by
  simp only [expandView, normalizeAxes_of_axesNorm hk, Option.map_some, Option.some.injEq] at hv
  subst hv
  exact indexExpand_spec ks sps (by rw [hk.length_eq, hl]) d (by rw [hd]; exact hk.lt)

theorem expandAxes_inBounds (s : Shape) (axes : List Int) (sps ks : List Nat) (hk : AxesNorm s.length axes ks)
    (hl : sps.length = axes.length) (v : IxView) (hv : expandView s axes sps = some v) : v.InBounds := by
  obtain ⟨w, hw, h1, h2, h3⟩ := expandAxes_shape s axes sps ks hk hl
  rw [hv] at hw; simp only [Option.some.injEq] at hw; subst hw
  intro d hd i hi
  have hdl : d.length = s.length := by rw [hd.length_eq, h2]
  obtain ⟨hnone, hsome⟩ := expandAxes_elem s axes sps ks hk hl v hv d hdl
  by_cases hall : ∀ j x, d[j]? = some x → x % expandFactor ks sps j = 0
  · obtain ⟨q, hq, hql, hqs⟩ := hsome hall
    rw [hq] at hi
    simp only [Option.some.injEq] at hi
    subst hi
    rw [h1, inShape_iff_forall]
    refine ⟨by omega, ?_⟩
    intro j hj1 hj2
    have hjd : j < d.length := by omega
    have hqj := hqs j d[j] (by simp [hjd])
    have e : q[j] = d[j] / expandFactor ks sps j := by simpa [hj1] using hqj
    rw [e]
    have hdj := ((inShape_iff_forall _ _).1 hd).2 j hjd (by omega)
    have hext : v.dst[j] = s[j] + (s[j] - 1) * (expandFactor ks sps j - 1) := by
      have := h3 j hj2
      simpa [show j < v.dst.length by omega] using this
    rw [hext] at hdj
    exact expand_quot_lt s[j] _ d[j] (expandFactor_pos ks sps j) hdj (hall j d[j] (by simp [hjd]))
  · have : ∃ j x, d[j]? = some x ∧ x % expandFactor ks sps j ≠ 0 := by
      apply Classical.byContradiction
      intro hcon
      apply hall
      intro j x hjx
      apply Classical.byContradiction
      intro hne
      exact hcon ⟨j, x, hjx, hne⟩
    rw [hnone this] at hi
    simp at hi

example : AxesNorm 2 [-1, 0] [1, 0] ∧ expandFactor [1, 0] [2, 1] 1 = 3 ∧ expandFactor [1, 0] [2, 1] 0 = 2 :=
  ⟨.cons (by decide) (.cons (by decide) .nil), by decide, by decide⟩
example : (expandView [2, 3] [-1, 0] [2, 1]).map (fun v => (v.dst, v.map [2, 3], v.map [1, 3], v.map [2, 4])) =
    some ([3, 7], some [1, 1], none, none) := by decide
/-- a repeated axis multiplies its factors -/
example : expandFactor [0, 0] [1, 2] 0 = 6 ∧
    (expandView [3] [0, -1] [1, 2]).map (fun v => (v.dst, v.map [6], v.map [3])) = some ([13], some [1], none) := by decide

/-! ### tril / triu (NumPy: `out[…, i, j] = m[…, i, j]` if `j ≤ i + k` (tril) / `j ≥ i + k` (triu), else 0;
    a rank-1 `m` is used as every row of an `n × n` result) -/

theorem tril_shape (s : Shape) (k : Int) : ∃ v, trilView s k = some v ∧ v.src = s ∧ v.dst = shapeTri s :=
  ⟨_, rfl, rfl, rfl⟩

theorem triu_shape (s : Shape) (k : Int) : ∃ v, triuView s k = some v ∧ v.src = s ∧ v.dst = shapeTri s :=
  ⟨_, rfl, rfl, rfl⟩

theorem tril_elem (s : Shape) (k : Int) (v : IxView) (hv : trilView s k = some v) (d : Idx) (i0 i1 : Nat)
    (hd : lastTwo d = some (i0, i1)) :
    v.map d = if (i1 : Int) ≤ (i0 : Int) + k then (if s.length > 1 then some d else some [i1]) else none := by
  simp only [trilView, triView, Option.some.injEq] at hv
  subst hv
  simp only [hd]
  by_cases h : (i1 : Int) ≤ (i0 : Int) + k
  · have : ¬ ((i1 : Int) > (i0 : Int) + k) := by omega
    simp [h, this]
  · have : (i1 : Int) > (i0 : Int) + k := by omega
    simp [h, this]

theorem triu_elem (s : Shape) (k : Int) (v : IxView) (hv : triuView s k = some v) (d : Idx) (i0 i1 : Nat)
    (hd : lastTwo d = some (i0, i1)) :
    v.map d = if (i0 : Int) + k ≤ (i1 : Int) then (if s.length > 1 then some d else some [i1]) else none := by
  simp only [triuView, triView, Option.some.injEq] at hv
  subst hv
  simp only [hd]
  by_cases h : (i0 : Int) + k ≤ (i1 : Int)
  · have : ¬ ((i0 : Int) > (i1 : Int) - k) := by omega
    simp [h, this]
  · have : (i0 : Int) > (i1 : Int) - k := by omega
    simp [h, this]

/-- neither view reads outside its source, whatever `k` -/
private theorem triView_inBounds (f : Int → Int → Bool) (s : Shape) (v : IxView) (hv : triView f s = some v) : v.InBounds := by
  simp only [triView, Option.some.injEq] at hv
  subst hv
  intro d hd i hi
  simp only at hd hi
  cases hlt : lastTwo d with
  | none => simp [hlt] at hi
  | some p =>
    obtain ⟨i0, i1⟩ := p
    simp only [hlt] at hi
    split at hi
    · simp at hi
    · split at hi
      · rename_i hr
        simp only [Option.some.injEq] at hi; subst hi
        have : shapeTri s = s := by
          match s, hr with
          | [], hr => simp at hr
          | [_], hr => simp at hr
          | _ :: _ :: _, _ => rfl
        rwa [this] at hd
      · rename_i hr
        simp only [Option.some.injEq] at hi; subst hi
        match s, hr, hd with
        | [], _, hd =>
          cases d with
          | nil => simp [lastTwo] at hlt
          | cons _ _ => simp [shapeTri, InShape] at hd
        | [n], _, hd =>
          match d, hd with
          | [a, b], hd =>
            simp only [shapeTri, InShape] at hd
            simp only [lastTwo, List.reverse_cons, List.reverse_nil, List.nil_append, List.cons_append,
              Option.some.injEq, Prod.mk.injEq] at hlt
            obtain ⟨_, rfl⟩ := hlt
            simp [InShape, hd.2.1]
        | _ :: _ :: _, hr, _ => simp at hr

theorem tril_inBounds (s : Shape) (k : Int) (v : IxView) (hv : trilView s k = some v) : v.InBounds :=
  triView_inBounds _ s v hv

theorem triu_inBounds (s : Shape) (k : Int) (v : IxView) (hv : triuView s k = some v) : v.InBounds :=
  triView_inBounds _ s v hv

example : (trilView [3, 3] (-1)).map (fun v => (v.map [1, 0], v.map [1, 1])) = some (some [1, 0], none) := by decide
example : (triuView [3] 1).map (fun v => (v.dst, v.map [0, 2], v.map [1, 1])) = some ([3, 3], some [2], none) := by decide

/-! ### diagflat (NumPy: the flattened input on the `k`-th diagonal of an `(n+|k|)²` zero matrix:
    `out[i, i+k] = flat[i]` for `k ≥ 0`, `out[i-k, i] = flat[i]` for `k < 0`, i.e. source = `min(row, col)`) -/

theorem diagflat_shape (s : Shape) (k : Int) :
    ∃ v, diagflatView s k = some v ∧ v.src = s ∧ v.dst = [prod s + k.natAbs, prod s + k.natAbs] := by
  refine ⟨_, rfl, rfl, ?_⟩
  have : i2u ((prod s : Int) + (if k ≥ 0 then k else -k)) = prod s + k.natAbs := by
    rw [i2u_of_nonneg _ (by split <;> omega)]
    split <;> omega
  simp [this]

theorem diagflat_elem (s : Shape) (k : Int) (v : IxView) (hv : diagflatView s k = some v) (i0 i1 : Nat) :
    v.map [i0, i1] = if (i1 : Int) = (i0 : Int) + k then some (ndindex s (min i0 i1)) else none := by
  simp only [diagflatView, Option.some.injEq] at hv
  subst hv
  simp only [lastTwo, List.reverse_cons, List.reverse_nil, List.nil_append, List.cons_append]
  by_cases h : (i1 : Int) = (i0 : Int) + k
  · simp only [h, if_true]
    have : i2u ((i0 : Int) + (if k > 0 then 0 else k)) = min i0 i1 := by
      rw [i2u_of_nonneg _ (by split <;> omega)]
      split <;> omega
    rw [this]
    simp [reshapeIdx, strides, prod, computeOffset, ndindex]
  · simp [h]

theorem diagflat_inBounds (s : Shape) (hs : Pos s) (k : Int) (v : IxView) (hv : diagflatView s k = some v) : v.InBounds := by
  obtain ⟨w, hw, h1, h2⟩ := diagflat_shape s k
  rw [hv] at hw; simp only [Option.some.injEq] at hw; subst hw
  intro d hd i hi
  rw [h2] at hd
  rw [h1]
  match d, hd with
  | [i0, i1], hd =>
    rw [diagflat_elem s k v hv i0 i1] at hi
    split at hi
    · simp only [Option.some.injEq] at hi
      subst hi
      exact indices_inShape hs _
    · simp at hi

example : (diagflatView [2, 2] (-1)).map (fun v => (v.dst, v.map [1, 0], v.map [4, 3], v.map [2, 2])) =
    some ([5, 5], some [0, 0], some [1, 1], none) := by decide

/-! ### sliding_window (scalar window on one axis — NumPy `sliding_window_view(a, w, axis=k)`: extent `e - w + 1` on the
    axis, a trailing window axis of extent `w`, `out[i…, o] = a[i with i[k] + o]`).  Window lists with axis lists / axis
    None: `slidingWindowList_*`, `slidingWindowNone_*`, `slidingWindowScalarNone_rank1` below. -/

theorem slidingWindow_shape (s : Shape) (w : Nat) (axis : Int) (k e : Nat) (hk : normalizeAxis1 axis s.length = some k)
    (he : s[k]? = some e) :
    ∃ v, slidingWindowView s [w] (some [axis]) true = some v ∧ v.src = s ∧
      v.dst = replaceExtent s k (e - (w - 1)) ++ [w] := by
  have hkn := (normalizeAxis1_some axis _ k hk).1
  simp [slidingWindowView, shapeSlidingWindow, hk, shrinkAxes, he, replaceExtent_eq_set s k _ hkn]

theorem slidingWindow_elem (s : Shape) (w : Nat) (axis : Int) (k : Nat) (hk : normalizeAxis1 axis s.length = some k)
    (v : IxView) (hv : slidingWindowView s [w] (some [axis]) true = some v)
    (i : Idx) (o x : Nat) (hi : i.length = s.length) (hx : i[k]? = some x) :
    v.map (i ++ [o]) = some (i.set k (x + o)) := by
  obtain ⟨hkn, hpos⟩ := normalizeAxis1_some axis _ k hk
  simp only [slidingWindowView, shapeSlidingWindow, List.mapM_cons, List.mapM_nil, hk, Option.pure_def,
    Option.bind_eq_bind, Option.bind_some, Option.map_some, Option.some.injEq] at hv
  subst hv
  have ht : (i ++ [o]).take s.length = i := by rw [← hi]; simp
  have hdr : (i ++ [o]).drop s.length = [o] := by rw [← hi]; simp
  simp only [indexSlidingWindow, ht, hdr, addWindowOffsets, atPy, hi, hpos, Option.bind_some, hx, setPy]
  simp

theorem slidingWindow_inBounds (s : Shape) (w : Nat) (axis : Int) (k e : Nat) (hk : normalizeAxis1 axis s.length = some k)
    (he : s[k]? = some e) (hw1 : 1 ≤ w) (hw2 : w ≤ e)
    (v : IxView) (hv : slidingWindowView s [w] (some [axis]) true = some v) : v.InBounds := by
  have hkn := (normalizeAxis1_some axis _ k hk).1
  obtain ⟨u, hu, h1, h2⟩ := slidingWindow_shape s w axis k e hk he
  rw [hv] at hu; simp only [Option.some.injEq] at hu; subst hu
  intro d hd r hr
  rw [h2] at hd
  rw [h1]
  rw [inShape_append_iff] at hd
  obtain ⟨hd1, hd2⟩ := hd
  have hlen : (replaceExtent s k (e - (w - 1))).length = s.length := by
    rw [replaceExtent_eq_set s k _ hkn]; simp
  rw [hlen] at hd1 hd2
  -- d = i ++ [o]
  have hdl := hd1.length_eq
  have hdl2 := hd2.length_eq
  simp only [List.length_take, List.length_drop, hlen, List.length_singleton] at hdl hdl2
  match hdr : d.drop s.length, hd2 with
  | [o], hd2 =>
    have hsplit : d = d.take s.length ++ [o] := by rw [← hdr, List.take_append_drop]
    obtain ⟨x, hx, hxm, hd1'⟩ := coord_of_inShape hkn hd1
    rw [hsplit, slidingWindow_elem s w axis k hk v hv (d.take s.length) o x (by simp; omega) hx] at hr
    simp only [Option.some.injEq] at hr
    subst hr
    have ho : o < w := by simpa [InShape] using hd2
    have e1 : s[k] = e := by simpa [hkn] using he
    exact inShape_set_of_set hd1' hkn (by omega)

example : (slidingWindowView [2, 4] [2] (some [-1]) true).map (fun v => (v.dst, v.map [1, 2, 1])) =
    some ([2, 3, 2], some [1, 3]) := by decide

/-! ### sliding_window with a window LIST and an axis LIST (NumPy `sliding_window_view(a, window_shape, axis)`,
    `len(window_shape) = len(axis)`, axes may be negative and may repeat): SPEC `swShape` / `swIndex` in
    Lemmas/SlidingWindow.lean. -/


set_option linter.unusedVariables false in
/-- shape = NumPy's: every listed axis trimmed by `w - 1` (a repeated axis by the total), window extents appended.
    `hw` / `hfit` delimit NumPy's domain (windows `≥ 1`, total trim within the extent), on which the subtractions in
    `swShape` are exact and the `size_t` arithmetic of the C++ does not wrap (the equation itself needs none of them). -/
theorem slidingWindowList_shape (s ws : List Nat) (axes : List Int) (ks : List Nat) (hk : AxesNorm s.length axes ks)
    (hl : ws.length = axes.length) (hw : ∀ w ∈ ws, 1 ≤ w)
    (hfit : ∀ p e, s[p]? = some e → winSum ks (ws.map (· - 1)) p ≤ e) :
    ∃ v, slidingWindowView s ws (some axes) false = some v ∧ v.src = s ∧ v.dst = swShape s ks ws := by
  simp only [slidingWindowView, shapeSlidingWindow, mapM_normalizeAxis1_of_axesNorm _ _ _ hk, Option.map_some]
  exact ⟨_, rfl, rfl, by rw [shrinkAxes_eq s ks ws hk.lt]; rfl⟩

/-- element `(i…, o…)` reads the source at `i[p] + Σ_{axis j = p} o[j]` (NumPy's strides: one window axis per listed
    axis, a repeated axis accumulates) -/
theorem slidingWindowList_elem (s ws : List Nat) (axes : List Int) (ks : List Nat) (hk : AxesNorm s.length axes ks)
    (v : IxView) (hv : slidingWindowView s ws (some axes) false = some v) (i o : Idx) (hi : i.length = s.length) :
    v.map (i ++ o) = some (swIndex i ks o) := by
  simp only [slidingWindowView, shapeSlidingWindow, mapM_normalizeAxis1_of_axesNorm _ _ _ hk, Option.map_some,
    Option.some.injEq] at hv
  subst hv
  have ht : (i ++ o).take s.length = i := by rw [← hi]; simp
  have hdr : (i ++ o).drop s.length = o := by rw [← hi]; simp
  simp only [indexSlidingWindow, ht, hdr]
  rw [addWindowOffsets_eq i axes ks o (by rw [hi]; exact hk)]
  rfl

set_option linter.unusedVariables false in
/-- no access leaves the source.  `hw` / `hfit` are the domain on which the model mirrors the C++ (`size_t` arithmetic
    without wrap-around; NumPy's own domain is slightly smaller: it also refuses a trimmed extent of 0) -/
theorem slidingWindowList_inBounds (s ws : List Nat) (axes : List Int) (ks : List Nat) (hk : AxesNorm s.length axes ks)
    (hw : ∀ w ∈ ws, 1 ≤ w) (hfit : ∀ p e, s[p]? = some e → winSum ks (ws.map (· - 1)) p ≤ e)
    (v : IxView) (hv : slidingWindowView s ws (some axes) false = some v) : v.InBounds := by
  have hdst : v.src = s ∧ v.dst = swShape s ks ws := by
    simp only [slidingWindowView, shapeSlidingWindow, mapM_normalizeAxis1_of_axesNorm _ _ _ hk, Option.map_some,
      Option.some.injEq] at hv
    subst hv
    exact ⟨rfl, by show shrinkAxes s ks ws ++ ws = _; rw [shrinkAxes_eq s ks ws hk.lt]; rfl⟩
  intro d hd r hr
  rw [hdst.2, swShape, inShape_append_iff] at hd
  rw [hdst.1]
  simp only [List.length_mapIdx] at hd
  obtain ⟨hd1, hd2⟩ := hd
  have hdl := hd1.length_eq
  simp only [List.length_mapIdx] at hdl
  have hsplit : d = d.take s.length ++ d.drop s.length := (List.take_append_drop _ _).symm
  rw [hsplit, slidingWindowList_elem s ws axes ks hk v hv _ _ hdl] at hr
  simp only [Option.some.injEq] at hr
  subst hr
  exact swIndex_inShape s ks ws _ _ hd1 hd2

example : AxesNorm 2 [-1, 0, 1] [1, 0, 1] ∧ (∀ w ∈ [2, 2, 2], 1 ≤ w) ∧ swShape [3, 4] [1, 0, 1] [2, 2, 2] = [2, 2, 2, 2, 2] ∧
    swIndex [1, 1] [1, 0, 1] [1, 0, 1] = [1, 3] := by
  refine ⟨.cons (by decide) (.cons (by decide) (.cons (by decide) .nil)), by decide, by decide, by decide⟩
/-- repeated axis (negative and positive spelling of axis 1): the two window coordinates add up -/
example : (slidingWindowView [3, 4] [2, 2, 2] (some [-1, 0, 1]) false).map (fun v => (v.dst, v.map [1, 1, 1, 0, 1])) =
    some ([2, 2, 2, 2, 2], some [1, 3]) := by decide

/-- the domain hypotheses `hfit` hold on the example above (total trim 1 on axis 0, 2 on axis 1) -/
example : ∀ p e, ([3, 4] : List Nat)[p]? = some e → winSum [1, 0, 1] (([2, 2, 2] : List Nat).map (· - 1)) p ≤ e := by
  intro p e h
  match p, h with
  | 0, h => simp at h; subst h; decide
  | 1, h => simp at h; subst h; decide
  | p + 2, h => simp at h

/-! axis None with a window list: one window per axis (NumPy: `axis = range(ndim)`, `len(window_shape) = ndim`).
    `hw` / `hfit` again delimit the domain on which the model mirrors the C++ (no `size_t` wrap-around). -/

set_option linter.unusedVariables false in
theorem slidingWindowNone_shape (s ws : List Nat) (hl : ws.length = s.length) (hw : ∀ w ∈ ws, 1 ≤ w)
    (hfit : ∀ (p e w : Nat), s[p]? = some e → ws[p]? = some w → w ≤ e + 1) :
    ∃ v, slidingWindowView s ws none false = some v ∧ v.src = s ∧
      v.dst = List.zipWith (fun e w => e - (w - 1)) s ws ++ ws := by
  refine ⟨_, rfl, rfl, ?_⟩
  simp [shrinkAll, hl]

theorem slidingWindowNone_elem (s ws : List Nat) (v : IxView) (hv : slidingWindowView s ws none false = some v)
    (i o : Idx) (hi : i.length = s.length) (ho : o.length = s.length) :
    v.map (i ++ o) = some (List.zipWith (· + ·) i o) := by
  simp only [slidingWindowView, shapeSlidingWindow, Bool.false_eq_true, if_false, Option.map_some,
    Option.some.injEq] at hv
  subst hv
  have ht : (i ++ o).take s.length = i := by rw [← hi]; simp
  have hdr : (i ++ o).drop s.length = o := by rw [← hi]; simp
  simp [indexSlidingWindow, ht, hdr, ho]

set_option linter.unusedVariables false in
theorem slidingWindowNone_inBounds (s ws : List Nat) (hl : ws.length = s.length) (hw : ∀ w ∈ ws, 1 ≤ w)
    (hfit : ∀ (p e w : Nat), s[p]? = some e → ws[p]? = some w → w ≤ e + 1) (v : IxView)
    (hv : slidingWindowView s ws none false = some v) : v.InBounds := by
  have hdst : v.src = s ∧ v.dst = List.zipWith (fun e w => e - (w - 1)) s ws ++ ws := by
    simp only [slidingWindowView, shapeSlidingWindow, Bool.false_eq_true, if_false, Option.map_some,
      Option.some.injEq] at hv
    subst hv
    exact ⟨rfl, by simp [shrinkAll, hl]⟩
  intro d hd r hr
  rw [hdst.2, inShape_append_iff] at hd
  rw [hdst.1]
  have hzl : (List.zipWith (fun e w => e - (w - 1)) s ws).length = s.length := by simp [hl]
  rw [hzl] at hd
  obtain ⟨hd1, hd2⟩ := hd
  have h1 := hd1.length_eq
  have h2 := hd2.length_eq
  rw [hzl] at h1
  have hsplit : d = d.take s.length ++ d.drop s.length := (List.take_append_drop _ _).symm
  rw [hsplit, slidingWindowNone_elem s ws v hv _ _ h1 (by omega)] at hr
  simp only [Option.some.injEq] at hr
  subst hr
  exact zipWith_add_inShape s ws _ _ hl hd1 hd2

example : (slidingWindowView [3, 4] [2, 3] none false).map (fun v => (v.dst, v.map [1, 1, 1, 2])) =
    some ([2, 2, 2, 3], some [2, 3]) := by decide

example : ∀ (p e w : Nat), ([3, 4] : List Nat)[p]? = some e → ([2, 3] : List Nat)[p]? = some w → w ≤ e + 1 := by
  intro p e w h1 h2
  match p, h1, h2 with
  | 0, h1, h2 => simp at h1 h2; omega
  | 1, h1, h2 => simp at h1 h2; omega
  | p + 2, h1, _ => simp at h1

set_option linter.unusedVariables false in
/-- scalar window with axis None: NumPy accepts it for rank 1 only, where it is the one-axis case
    (`hw1` / `hw2`: the domain on which the model mirrors the C++, no `size_t` wrap-around) -/
theorem slidingWindowScalarNone_rank1 (n w : Nat) (hw1 : 1 ≤ w) (hw2 : w ≤ n + 1) :
    ∃ v, slidingWindowView [n] [w] none true = some v ∧ v.src = [n] ∧ v.dst = [n - (w - 1), w] ∧
      ∀ i o, v.map [i, o] = some [i + o] := by
  refine ⟨_, rfl, rfl, rfl, ?_⟩
  intro i o
  simp [indexSlidingWindow]

example : (slidingWindowView [4] [2] none true).map (fun v => (v.dst, v.map [2, 1])) = some ([3, 2], some [3]) := by decide

/-! ### split into `N` equal sections along axis `k` (NumPy `np.split(a, N, axis=k)`, `N ∣ extent`): `N` parts of
    extent `n / N`, part `i` reads `a[…, x + i·(n/N), …]`.  Cut-point lists: `splitIdx_*` below (cut points beyond the
    extent were a defect of the original code, "split.index-beyond-extent", repaired in /repo). -/

theorem split_parts (s : Shape) (N k n : Nat) (hn : s[k]? = some n) :
    ∃ ps, splitViews s (some N) [] (k : Int) = some ps ∧ ps.length = N := by
  have : ¬ ((k : Int) < 0) := by omega
  simp [splitViews, hn, splitBoundsSections]

theorem split_elem (s : Shape) (N k n : Nat) (hn : s[k]? = some n) (hdiv : N ∣ n) (ps : List IxView)
    (hps : splitViews s (some N) [] (k : Int) = some ps) (i : Nat) (v : IxView) (hv : ps[i]? = some v) :
    i < N ∧ v.src = s ∧ v.dst = replaceExtent s k (n / N) ∧
      ∀ d x, d[k]? = some x → v.map d = some (d.set k (x + i * (n / N))) := by
  have hk : k < s.length := by
    rcases Nat.lt_or_ge k s.length with h | h
    · exact h
    · simp [List.getElem?_eq_none h] at hn
  simp only [splitViews, Int.natCast_nonneg, ge_iff_le, if_true, Int.toNat_natCast, hn, splitBoundsSections,
    List.map_map, Option.some.injEq] at hps
  subst hps
  simp only [List.getElem?_map, List.getElem?_range, Option.map_eq_some_iff] at hv
  obtain ⟨j, hj, hv⟩ := hv
  have hjr := List.getElem?_eq_some_iff.1 hj
  obtain ⟨hlt, hji⟩ := hjr
  simp only [List.length_range] at hlt
  simp only [List.getElem_range] at hji
  subst hji
  subst hv
  refine ⟨hlt, rfl, ?_, ?_⟩
  · simp only [Function.comp]
    rw [replaceExtent_eq_set s k _ hk]
    congr 1
    -- (i+1)·r ≤ n, so the clamp is inactive
    obtain ⟨c, rfl⟩ := hdiv
    have hN : 0 < N := by omega
    have hr : N * c / N = c := Nat.mul_div_cancel_left c hN
    rw [hr]
    have : i * c + c ≤ N * c := by
      have : (i + 1) * c ≤ N * c := Nat.mul_le_mul_right c (by omega)
      simpa [Nat.add_mul] using this
    omega
  · intro d x hx
    simp [Function.comp, hx]

theorem split_inBounds (s : Shape) (N k n : Nat) (hn : s[k]? = some n) (hdiv : N ∣ n) (ps : List IxView)
    (hps : splitViews s (some N) [] (k : Int) = some ps) (i : Nat) (v : IxView) (hv : ps[i]? = some v) : v.InBounds := by
  have hk : k < s.length := by
    rcases Nat.lt_or_ge k s.length with h | h
    · exact h
    · simp [List.getElem?_eq_none h] at hn
  obtain ⟨hi, h1, h2, hm⟩ := split_elem s N k n hn hdiv ps hps i v hv
  intro d hd r hr
  rw [h2] at hd
  rw [h1]
  obtain ⟨x, hx, hxm, hd'⟩ := coord_of_inShape hk hd
  rw [hm d x hx] at hr
  simp only [Option.some.injEq] at hr
  subst hr
  have e1 : s[k] = n := by simpa [hk] using hn
  apply inShape_set_of_set hd' hk
  obtain ⟨c, rfl⟩ := hdiv
  have hN : 0 < N := by omega
  have hr : N * c / N = c := Nat.mul_div_cancel_left c hN
  rw [hr] at hxm ⊢
  have : (i + 1) * c ≤ N * c := Nat.mul_le_mul_right c (by omega)
  have : i * c + c ≤ N * c := by simpa [Nat.add_mul] using this
  omega

example : (splitViews [2, 6] (some 3) [] 1).map (fun ps => ps.map (fun v => (v.dst, v.map [1, 1]))) =
    some [([2, 2], some [1, 1]), ([2, 2], some [1, 3]), ([2, 2], some [1, 5])] := by decide

/-! ### split at a LIST of cut points (NumPy `np.split(a, [i1, i2, …], axis)`): `len + 1` parts, part `i` = `a[lo:hi]` on
    the axis with `lo = ([0] + cuts)[i]`, `hi = (cuts + [n])[i]`; every accepted axis incl. negative; cut points beyond
    the extent are clamped (empty trailing parts), repeated cut points give empty parts.  Domain: cut points `≥ 0`
    (a negative cut point means "from the end" in NumPy and wraps to a huge `size_t` in the C++: outside the domain);
    the partition statement additionally needs them sorted (NumPy's documented domain). -/

/-- a cut list of length `m` gives `m + 1` parts, whatever the cut points (the C++ never refuses) -/
theorem splitIdx_parts (s : Shape) (cuts : List Int) (axis : Int) (k : Nat)
    (hk : normalizeAxis1 axis s.length = some k) :
    ∃ ps, splitViews s none cuts axis = some ps ∧ ps.length = cuts.length + 1 := by
  have hkn := (normalizeAxis1_some axis _ k hk).1
  have hn : s[k]? = some s[k] := by simp [hkn]
  exact ⟨_, splitViews_indices_eq s cuts axis k _ hk hn, by simp [splitBoundsIndices_length]⟩

/-- part `i` is NumPy's `a[…, lo:hi, …]` with `lo = ([0] + cuts)[i]`, `hi = (cuts + [n])[i]` (Python slice semantics for
    non-negative bounds: both clamped to the extent `n`, length `max(0, stop - start)`), element `x ↦ x + start` -/
theorem splitIdx_elem (s : Shape) (cuts : List Int) (axis : Int) (k n : Nat)
    (hk : normalizeAxis1 axis s.length = some k) (hn : s[k]? = some n) (hnn : ∀ c ∈ cuts, 0 ≤ c)
    (ps : List IxView) (hps : splitViews s none cuts axis = some ps) (i : Nat) (v : IxView) (hv : ps[i]? = some v)
    (lo hi : Nat) (hlo : (0 :: cuts.map Int.toNat)[i]? = some lo) (hhi : (cuts.map Int.toNat ++ [n])[i]? = some hi) :
    v.src = s ∧ v.dst = replaceExtent s k (min hi n - min lo n) ∧
      ∀ d x, d[k]? = some x → v.map d = some (d.set k (x + min lo n)) := by
  have hkn := (normalizeAxis1_some axis _ k hk).1
  rw [splitViews_indices_eq s cuts axis k n hk hn] at hps
  simp only [Option.some.injEq] at hps
  subst hps
  rw [List.getElem?_map, splitBoundsIndices_getElem? n cuts hnn i lo hi hlo hhi] at hv
  simp only [Option.map_some, Option.some.injEq] at hv
  subst hv
  refine ⟨rfl, ?_, ?_⟩
  · rw [replaceExtent_eq_set s k _ hkn]
    simp only [splitPart]
    congr 2
    omega
  · intro d x hx
    simp [splitPart, hx]

/-- no part reads outside the source, whatever the (non-negative) cut points: beyond the extent ⇒ empty part -/
theorem splitIdx_inBounds (s : Shape) (cuts : List Int) (axis : Int) (k : Nat)
    (hk : normalizeAxis1 axis s.length = some k) (hnn : ∀ c ∈ cuts, 0 ≤ c)
    (ps : List IxView) (hps : splitViews s none cuts axis = some ps) (i : Nat) (v : IxView) (hv : ps[i]? = some v) :
    v.InBounds := by
  have hkn := (normalizeAxis1_some axis _ k hk).1
  have hn : s[k]? = some s[k] := by simp [hkn]
  obtain ⟨ps', hps', hlen⟩ := splitIdx_parts s cuts axis k hk
  rw [hps] at hps'; simp only [Option.some.injEq] at hps'; subst hps'
  have hi : i < cuts.length + 1 := by
    rw [← hlen]
    exact (List.getElem?_eq_some_iff.1 hv).1
  have h1 : i < (0 :: cuts.map Int.toNat).length := by simpa using hi
  have h2 : i < (cuts.map Int.toNat ++ [s[k]]).length := by simpa using hi
  obtain ⟨hsrc, hdst, hm⟩ := splitIdx_elem s cuts axis k _ hk hn hnn ps hps i v hv _ _
    (List.getElem?_eq_getElem h1) (List.getElem?_eq_getElem h2)
  intro d hd r hr
  rw [hdst] at hd
  rw [hsrc]
  obtain ⟨x, hx, hxm, hd'⟩ := coord_of_inShape hkn hd
  rw [hm d x hx] at hr
  simp only [Option.some.injEq] at hr
  subst hr
  exact inShape_set_of_set hd' hkn (by omega)

/-- sorted non-negative cut points: the parts PARTITION the axis — reading every part along the axis, one part after the
    other, visits every source position `0 … n-1` exactly once and in order (all other coordinates unchanged, `d`) -/
theorem splitIdx_partition (s : Shape) (cuts : List Int) (axis : Int) (k n : Nat)
    (hk : normalizeAxis1 axis s.length = some k) (hn : s[k]? = some n) (hnn : ∀ c ∈ cuts, 0 ≤ c)
    (hsorted : cuts.Pairwise (· ≤ ·))
    (ps : List IxView) (hps : splitViews s none cuts axis = some ps) (d : Idx) (hd : d.length = s.length) :
    ps.flatMap (fun v => axisReads v k d) = (List.range n).map some := by
  have hkn := (normalizeAxis1_some axis _ k hk).1
  rw [splitViews_indices_eq s cuts axis k n hk hn] at hps
  simp only [Option.some.injEq] at hps
  subst hps
  rw [List.flatMap_map]
  simp only [axisReads_splitPart s k n _ d hkn hd]
  simp only [splitBoundsIndices, splitCuts_nonneg n cuts hnn]
  rw [flatMap_zip_ranges n _ 0 (Nat.zero_le _)]
  · simp [List.range_eq_range']
  · rw [List.pairwise_map, List.pairwise_map]
    refine hsorted.imp_of_mem ?_
    intro a b ha hb hab
    have := hnn a ha
    have := hnn b hb
    omega
  · intro c hc
    simp only [List.mem_map] at hc
    obtain ⟨c', _, rfl⟩ := hc
    omega

example : normalizeAxis1 (-1) 2 = some 1 ∧ (∀ c ∈ [1, 1, 7], (0 : Int) ≤ c) ∧ ([1, 1, 7] : List Int).Pairwise (· ≤ ·) := by decide
/-- cut points `[1, 1, 7]` on an axis of extent 4 (negative axis): parts `[0,1) [1,1) [1,4) [4,4)` -/
example : (splitViews [2, 4] none [1, 1, 7] (-1)).map (fun ps => ps.map (fun v => (v.dst, v.map [1, 0]))) =
    some [([2, 1], some [1, 0]), ([2, 0], some [1, 1]), ([2, 3], some [1, 1]), ([2, 0], some [1, 4])] := by decide
example : (splitViews [2, 4] none [1, 1, 7] (-1)).map (fun ps => ps.flatMap (fun v => axisReads v 1 [1, 0])) =
    some [some 0, some 1, some 2, some 3] := by decide

/-! ### stack / hstack / vstack / dstack / column_stack = concatenate of the two operands reshaped to a promoted shape
    (`joinReshaped a b a' b' axis`).  Reshaping keeps the flat (C-order) position, so the element theorems of
    concatenate carry over through `joinReshaped_elem_flat`; no read leaves either operand, whatever the promotion. -/

/-- the joined view has the shape of the concatenation of the promoted shapes and reads, from the same operand, the
    element with the same FLAT position as the concatenation reads from the promoted operand -/
theorem joinReshaped_elem_flat (a b a' b' : Shape) (axis : Int) (ha : Pos a) (hb : Pos b)
    (hpa : prod a' = prod a) (hpb : prod b' = prod b)
    (c : IxView2) (hc : concatenateView a' b' (some axis) = some c) (hcb : c.InBounds)
    (v : IxView2) (hv : joinReshaped a b a' b' axis = some v) (d : Idx) (hd : InShape d c.dst)
    (fl : Bool) (i : Idx) (hi : c.map d = some (fl, i)) :
    v.dst = c.dst ∧ ∃ j, v.map d = some (fl, j) ∧
      (if fl then InShape j b ∧ computeOffset j (strides b) = computeOffset i (strides b')
       else InShape j a ∧ computeOffset j (strides a) = computeOffset i (strides a')) := by
  have hsrc : c.srcA = a' ∧ c.srcB = b' := by
    simp only [concatenateView, Option.some.injEq] at hc; subst hc; exact ⟨rfl, rfl⟩
  have hin := hcb d hd fl i hi
  simp only [joinReshaped, hc, Option.map_some, Option.some.injEq] at hv
  subst hv
  refine ⟨rfl, ?_⟩
  cases fl with
  | true =>
    simp only [if_true] at hin ⊢
    rw [hsrc.2] at hin
    refine ⟨reshapeIdx b b' i, by simp [hi], indices_inShape hb _, ?_⟩
    exact offset_indices hb (by rw [← hpb]; exact offset_lt hin)
  | false =>
    simp only [Bool.false_eq_true, if_false] at hin ⊢
    rw [hsrc.1] at hin
    refine ⟨reshapeIdx a a' i, by simp [hi], indices_inShape ha _, ?_⟩
    exact offset_indices ha (by rw [← hpa]; exact offset_lt hin)

/-- positive extents: a joined view never reads outside its operands (covers all five stack routines) -/
theorem joinReshaped_inBounds (a b a' b' : Shape) (axis : Int) (ha : Pos a) (hb : Pos b)
    (v : IxView2) (hv : joinReshaped a b a' b' axis = some v) : v.InBounds := by
  simp only [joinReshaped, concatenateView, Option.map_some, Option.some.injEq] at hv
  subst hv
  intro d _ fl i hi
  simp only [Option.map_eq_some_iff] at hi
  obtain ⟨p, _, hp⟩ := hi
  simp only [Prod.mk.injEq] at hp
  obtain ⟨rfl, rfl⟩ := hp
  cases p.1 with
  | true => simp only [if_true]; exact indices_inShape hb _
  | false => simp only [Bool.false_eq_true, if_false]; exact indices_inShape ha _

/-- the promotions are NumPy's: `vstack` → `atleast_2d` (row), `dstack` → `atleast_3d`, `column_stack` → column;
    each keeps the number of elements (so `joinReshaped_elem_flat` applies) -/
theorem promote_prod (s : Shape) : prod (promoteV s) = prod s ∧ prod (promoteD s) = prod s ∧ prod (promoteC s) = prod s := by
  refine ⟨?_, ?_, ?_⟩
  · unfold promoteV; split <;> simp [prod]
  · unfold promoteD; split <;> simp [prod]
  · unfold promoteC; split <;> simp [prod]

theorem expandDims_prod (s : Shape) (axis : Int) (s' : Shape) (h : shapeExpandDims s axis = some s') : prod s' = prod s := by
  simp only [shapeExpandDims, Option.map_eq_some_iff] at h
  obtain ⟨k, _, rfl⟩ := h
  have : s.take k ++ 1 :: s.drop k = s.take k ++ ([1] ++ s.drop k) := by simp
  rw [this, prod_append, prod_append, ← List.take_append_drop k s, prod_append]
  simp [prod]

/-- hstack is concatenate along axis 0 (rank-1 left operand) or 1, elementwise -/
theorem hstack_is_concatenate (a b : Shape) (ha : Pos a) (hb : Pos b) (k : Nat) (hk : k = if a.length = 1 then 0 else 1)
    (h : ConcatCompatible a b k) (c : IxView2) (hc : concatenateView a b (some (k : Int)) = some c)
    (v : IxView2) (hv : hstackView a b = some v) (d : Idx) (hd : InShape d c.dst) :
    v.dst = c.dst ∧ v.map d = c.map d := by
  have hax : (if a.length = 1 then (0 : Int) else 1) = (k : Int) := by subst hk; split <;> rfl
  simp only [hstackView, hax] at hv
  have hcb := concatenate_inBounds a b k h c hc
  obtain ⟨x, aa, hx, haa, hm⟩ := concatenate_elem a b k h c hc d hd
  have hsrc : c.srcA = a ∧ c.srcB = b := by
    simp only [concatenateView, Option.some.injEq] at hc; subst hc; exact ⟨rfl, rfl⟩
  by_cases hlt : x < aa
  · simp only [hlt, if_true] at hm
    obtain ⟨h1, j, hj, hfl⟩ := joinReshaped_elem_flat a b a b (k : Int) ha hb rfl rfl c hc hcb v hv d hd false d hm
    simp only [Bool.false_eq_true, if_false] at hfl
    have hin := hcb d hd false d hm
    simp only [Bool.false_eq_true, if_false, hsrc.1] at hin
    have : j = d := offset_injective hfl.1 hin hfl.2
    subst this
    exact ⟨h1, by rw [hj, hm]⟩
  · simp only [hlt, if_false] at hm
    obtain ⟨h1, j, hj, hfl⟩ := joinReshaped_elem_flat a b a b (k : Int) ha hb rfl rfl c hc hcb v hv d hd true _ hm
    simp only [if_true] at hfl
    have hin := hcb d hd true _ hm
    simp only [if_true, hsrc.2] at hin
    have : j = d.set k (x - aa) := offset_injective hfl.1 hin hfl.2
    subst this
    exact ⟨h1, by rw [hj, hm]⟩

example : (stackView [2] [2] 1).map (fun v => (v.dst, v.map [1, 0], v.map [1, 1])) =
    some ([2, 2], some (false, [1]), some (true, [1])) := by decide
example : (vstackView [3] [2, 3]).map (fun v => (v.dst, v.map [0, 2], v.map [2, 1])) =
    some ([3, 3], some (false, [2]), some (true, [1, 1])) := by decide

/-! ### diagonal (NumPy `np.diagonal(a, offset, axis1, axis2)`): for every rank, every accepted axis pair (negative
    spellings included) whose normalised positions `a1 ≠ a2`, and EVERY offset (negative, beyond the extent: empty),
    `dst = (shape without axes a1, a2) ++ [max(0, min(s[a1] + min(off,0), s[a2] - max(off,0)))]` and
    `out[o…, j] = a[r]` where `r[a1] = j + max(-off,0)`, `r[a2] = j + max(off,0)` and `r` without the two axes is `o`
    (`diagonal_shape`, `diagonal_elem`, `diagonal_inBounds`).  The matrix case `diagonal2d_*_partial` (rank 2, axes (0,1))
    came first and is kept under its name as a regression statement; it is subsumed by the general theorems.
    The two defects of the original code (negative offset, offset beyond the extent) were repaired in /repo. -/

/-- NumPy's diagonal length `max(0, min(n1 + min(off,0), n2 - max(off,0)))` -/
def diagLen (n1 n2 : Nat) (off : Int) : Nat :=
  (min ((n1 : Int) + min off 0) ((n2 : Int) - max off 0)).toNat

theorem diagonal2d_shape_partial (n1 n2 : Nat) (off : Int) :
    ∃ v, diagonalView [n1, n2] off 0 1 = some v ∧ v.src = [n1, n2] ∧ v.dst = [diagLen n1 n2 off] := by
  have hval : ∀ m : Int, i2u (if m < 0 then 0 else m) = m.toNat := by
    intro m
    rw [i2u_of_nonneg _ (by split <;> omega)]
    split <;> omega
  simp only [diagonalView, normalizeAxis1, shapeDiagonal]
  simp only [hval]
  refine ⟨_, by simp; rfl, rfl, ?_⟩
  simp only [othersAux, diagLen]
  have key : (if (if off < 0 then (n1 : Int) + off else n1) < (if 0 < off then (n2 : Int) - off else n2) then
      (if off < 0 then (n1 : Int) + off else n1) else (if 0 < off then (n2 : Int) - off else n2)) =
      min ((n1 : Int) + min off 0) ((n2 : Int) - max off 0) := by
    by_cases h1 : off < 0
    · have h2 : ¬ (0 < off) := by omega
      simp only [h1, h2, if_true, if_false]
      split <;> omega
    · by_cases h2 : 0 < off
      · simp only [h1, h2, if_true, if_false]
        split <;> omega
      · simp only [h1, h2, if_false]
        split <;> omega
  rw [key]
  simp

/-- `out[j] = a[j + max(-off,0), j + max(off,0)]`: NumPy's `(j, j+off)` for `off ≥ 0`, `(j-off, j)` for `off < 0` -/
theorem diagonal2d_elem_partial (n1 n2 : Nat) (off : Int) (v : IxView)
    (hv : diagonalView [n1, n2] off 0 1 = some v) (j : Nat) :
    v.map [j] = some [j + (max (-off) 0).toNat, j + (max off 0).toNat] := by
  obtain ⟨w, hw, _, _⟩ := diagonal2d_shape_partial n1 n2 off
  simp only [diagonalView, normalizeAxis1, shapeDiagonal] at hv
  simp at hv
  subst hv
  have e1 : (if off < 0 then (-off).toNat else 0) = (max (-off) 0).toNat := by split <;> omega
  have e2 : (if off > 0 then off.toNat else 0) = (max off 0).toNat := by split <;> omega
  simp [indexDiagonal, scatterOthers, e1, e2]

theorem diagonal2d_inBounds_partial (n1 n2 : Nat) (off : Int) (v : IxView)
    (hv : diagonalView [n1, n2] off 0 1 = some v) : v.InBounds := by
  obtain ⟨w, hw, h1, h2⟩ := diagonal2d_shape_partial n1 n2 off
  rw [hv] at hw; simp only [Option.some.injEq] at hw; subst hw
  intro d hd i hi
  rw [h2] at hd
  rw [h1]
  match d, hd with
  | [j], hd =>
    rw [diagonal2d_elem_partial n1 n2 off v hv j] at hi
    simp only [Option.some.injEq] at hi
    subst hi
    simp only [InShape, diagLen] at hd ⊢
    have := hd.1
    refine ⟨by omega, by omega, trivial⟩

/-- negative offset and empty diagonal (regression guards for the repaired defects) -/
example : (diagonalView [2, 1] (-1) 0 1).bind (·.map [0]) = some [1, 0] := by decide
example : (diagonalView [1, 1] 2 0 1).map (·.dst) = some [0] := by decide
example : diagLen 3 4 (-1) = 2 ∧ diagLen 3 4 5 = 0 := by decide

example : (diagonalView [3, 4] 1 0 1).map (fun v => (v.dst, v.map [2])) = some ([3], some [2, 3]) := by decide

/-! #### diagonal: any rank, any accepted axis pair -/

/-- the clamp expression of `shape_diagonal` is NumPy's diagonal length -/
private theorem shapeDiagonal_len (n1 n2 : Nat) (off : Int) :
    i2u (if (if (if off < 0 then (n1 : Int) + off else n1) < (if off > 0 then (n2 : Int) - off else n2) then
        (if off < 0 then (n1 : Int) + off else n1) else (if off > 0 then (n2 : Int) - off else n2)) < 0 then 0
      else (if (if off < 0 then (n1 : Int) + off else n1) < (if off > 0 then (n2 : Int) - off else n2) then
        (if off < 0 then (n1 : Int) + off else n1) else (if off > 0 then (n2 : Int) - off else n2))) = diagLen n1 n2 off := by
  rw [i2u_of_nonneg _ (by split <;> omega)]
  unfold diagLen
  by_cases h1 : off < 0
  · have h2 : ¬ (off > 0) := by omega
    simp only [h1, h2, if_true, if_false]
    split <;> split <;> omega
  · by_cases h2 : off > 0
    · simp only [h1, h2, if_true, if_false]
      split <;> split <;> omega
    · simp only [h1, h2, if_false]
      split <;> split <;> omega

/-- shape of `view::diagonal` = NumPy's: the source shape without the two axes, then the diagonal length -/
theorem diagonal_shape (s : Shape) (off axis1 axis2 : Int) (a1 a2 n1 n2 : Nat)
    (h1 : normalizeAxis1 axis1 s.length = some a1) (h2 : normalizeAxis1 axis2 s.length = some a2) (hne : a1 ≠ a2)
    (hn1 : s[a1]? = some n1) (hn2 : s[a2]? = some n2) :
    ∃ v, diagonalView s off axis1 axis2 = some v ∧ v.src = s ∧ v.dst = removeTwo s a1 a2 ++ [diagLen n1 n2 off] := by
  simp only [diagonalView, h1, h2, shapeDiagonal, hn1, hn2, Option.map_some]
  refine ⟨_, rfl, rfl, ?_⟩
  show othersAux a1 a2 0 s ++ [_] = _
  rw [othersAux_eq_removeTwo a1 a2 s hne, shapeDiagonal_len]

/-- element `(o…, j)` reads the source index that carries `j + max(-off,0)` on axis1, `j + max(off,0)` on axis2 and
    `o`, in order, on the remaining axes: NumPy's `a[…, j - min(off,0), …, j + max(off,0), …]` -/
theorem diagonal_elem (s : Shape) (off axis1 axis2 : Int) (a1 a2 : Nat)
    (h1 : normalizeAxis1 axis1 s.length = some a1) (h2 : normalizeAxis1 axis2 s.length = some a2) (hne : a1 ≠ a2)
    (v : IxView) (hv : diagonalView s off axis1 axis2 = some v) (o : Idx) (j : Nat) (ho : o.length + 2 = s.length) :
    ∃ r, v.map (o ++ [j]) = some r ∧ r.length = s.length ∧
      r[a1]? = some (j + (max (-off) 0).toNat) ∧ r[a2]? = some (j + (max off 0).toNat) ∧ removeTwo r a1 a2 = o := by
  have hk1 := (normalizeAxis1_some axis1 _ a1 h1).1
  have hk2 := (normalizeAxis1_some axis2 _ a2 h2).1
  simp only [diagonalView, h1, h2, Option.map_eq_some_iff] at hv
  obtain ⟨dst, _, rfl⟩ := hv
  obtain ⟨r, hr, hl, hr1, hr2, hrest⟩ := indexDiagonal_spec s o j off a1 a2 hne hk1 hk2 ho
  have e1 : (if off < 0 then (-off).toNat else 0) = (max (-off) 0).toNat := by split <;> omega
  have e2 : (if off > 0 then off.toNat else 0) = (max off 0).toNat := by split <;> omega
  rw [e1] at hr1
  rw [e2] at hr2
  exact ⟨r, by simp [hr], hl, hr1, hr2, hrest⟩

/-- no access of a diagonal view leaves the source (any extents: an empty diagonal has no element to read) -/
theorem diagonal_inBounds (s : Shape) (off axis1 axis2 : Int) (a1 a2 : Nat)
    (h1 : normalizeAxis1 axis1 s.length = some a1) (h2 : normalizeAxis1 axis2 s.length = some a2) (hne : a1 ≠ a2)
    (v : IxView) (hv : diagonalView s off axis1 axis2 = some v) : v.InBounds := by
  have hk1 := (normalizeAxis1_some axis1 _ a1 h1).1
  have hk2 := (normalizeAxis1_some axis2 _ a2 h2).1
  have hn1 : s[a1]? = some s[a1] := by simp [hk1]
  have hn2 : s[a2]? = some s[a2] := by simp [hk2]
  obtain ⟨w, hw, hsrc, hdst⟩ := diagonal_shape s off axis1 axis2 a1 a2 _ _ h1 h2 hne hn1 hn2
  rw [hv] at hw; simp only [Option.some.injEq] at hw; subst hw
  intro d hd i hi
  rw [hdst] at hd
  rw [hsrc]
  have hlen := removeTwo_length s a1 a2 hne hk1 hk2
  rw [inShape_append_iff] at hd
  obtain ⟨hd1, hd2⟩ := hd
  have hdl := hd1.length_eq
  match hdr : d.drop (removeTwo s a1 a2).length, hd2 with
  | [j], hd2 =>
    have hsplit : d = d.take (removeTwo s a1 a2).length ++ [j] := by rw [← hdr, List.take_append_drop]
    obtain ⟨r, hr, hl, hr1, hr2, hrest⟩ := diagonal_elem s off axis1 axis2 a1 a2 h1 h2 hne v hv
      (d.take (removeTwo s a1 a2).length) j (by omega)
    rw [hsplit, hr] at hi
    simp only [Option.some.injEq] at hi
    subst hi
    have hj : j < diagLen s[a1] s[a2] off := by simpa [InShape] using hd2
    unfold diagLen at hj
    exact inShape_of_removeTwo r s a1 a2 hne hk1 hk2 hl _ _ _ _ hr1 hn1 (by omega) hr2 hn2 (by omega) (by rw [hrest]; exact hd1)

example : normalizeAxis1 (-1) 3 = some 2 ∧ normalizeAxis1 0 3 = some 0 ∧ removeTwo [2, 3, 4] 2 0 = [3] ∧
    diagLen 4 2 (-1) = 2 := by decide
example : (diagonalView [2, 3, 4] (-1) (-1) 0).map (fun v => (v.dst, v.map [2, 0], v.map [1, 1])) =
    some ([3, 2], some [0, 2, 1], some [1, 1, 2]) := by decide

/-! ### stack with a negative axis: `expand_dims` and the repaired `concatenate` normalise against the same rank `dim+1` -/

theorem stack_axis_normalize (a b : Shape) (axis : Int) (k : Nat) (hk : normalizeAxis1 axis (a.length + 1) = some k)
    (hb : b.length = a.length) :
    stackView a b axis = stackView a b (k : Int) := by
  have hk' : normalizeAxis1 (k : Int) (a.length + 1) = some k :=
    normalizeAxis1_nat k _ (normalizeAxis1_some axis _ k hk).1
  have hlen : (a.take k ++ 1 :: a.drop k).length = a.length + 1 := by
    have := (normalizeAxis1_some axis _ k hk).1
    simp; omega
  simp only [stackView, shapeExpandDims, hk, hk', hb, Option.map_some, joinReshaped]
  rw [concatenateView_axis_normalize _ _ axis k (by rw [hlen]; exact hk)]

example : (stackView [1] [1] (-1)).map (·.dst) = some [1, 2] := by decide

/-! ### tri / eye / identity (generators; NumPy: `tri[i,j] = 1 iff j ≤ i + k`, `eye[i,j] = 1 iff j = i + k`) -/

theorem tri_shape (n : Nat) (m : Option Nat) (k : Int) :
    (triGen n m k).dst = [n, match m with | some m => m | none => n] := by cases m <;> rfl

theorem tri_elem (n : Nat) (m : Option Nat) (k : Int) (i j : Nat) :
    (triGen n m k).elem [i, j] = if (j : Int) ≤ (i : Int) + k then 1 else 0 := rfl

theorem eye_shape (n : Nat) (m : Option Nat) (k : Int) :
    (eyeGen n m k).dst = [n, match m with | some m => m | none => n] := by cases m <;> rfl

theorem eye_elem (n : Nat) (m : Option Nat) (k : Int) (i j : Nat) :
    (eyeGen n m k).elem [i, j] = if (j : Int) = (i : Int) + k then 1 else 0 := rfl

theorem identity_elem (n i j : Nat) : (identityGen n).dst = [n, n] ∧ (identityGen n).elem [i, j] = if j = i then 1 else 0 := by
  refine ⟨rfl, ?_⟩
  show (if (j : Int) = (i : Int) + 0 then (1 : Int) else 0) = _
  by_cases h : j = i
  · subst h; simp
  · have : ¬ ((j : Int) = (i : Int) + 0) := by omega
    rw [if_neg this, if_neg h]

example : (triGen 3 (some 4) (-1)).elem [2, 1] = 1 ∧ (triGen 3 (some 4) (-1)).elem [2, 2] = 0 := by decide

end NmVerif.Props.C04
