import NmVerif.Index.SelCommon
/-
  NmVerif.Index.Where — MODEL of include/nmtools/array/view/where.hpp: `where(c, x, y) = c' ? x' : y'` over
  `broadcast_arrays(c, x, y)` (Nothing when the shapes do not broadcast).

  Stable names:
    `Index.bcast2 a b : Option Shape`          index::broadcast_shape for two shapes (right aligned; equal or 1)
    `Index.bcastIdx s d : Idx`                 source index of a broadcast operand: right-aligned, extent-1 axes read 0
    `Index.WhereView`, `Index.whereView c x y : Option WhereView`
  The broadcast rule itself is C06's subject; here it is only the plumbing of `where`.
  Core Lean only.
-/
namespace NmVerif.Index

def bcast2Rev : List Nat → List Nat → Option (List Nat)
  | [], b => some b
  | a, [] => some a
  | x :: a, y :: b =>
      if x = y ∨ x = 1 ∨ y = 1 then (bcast2Rev a b).map (fun r => max x y :: r) else none

def bcast2 (a b : Shape) : Option Shape := (bcast2Rev a.reverse b.reverse).map List.reverse

def bcastIdx (s : Shape) (d : Idx) : Idx :=
  List.zipWith (fun e i => if e = 1 then 0 else i) s (d.drop (d.length - s.length))

structure WhereView where
  c : Shape
  x : Shape
  y : Shape
  dst : Shape

def whereView (c x y : Shape) : Option WhereView :=
  ((bcast2 c x).bind (fun cx => bcast2 cx y)).map (fun dst => ⟨c, x, y, dst⟩)

end NmVerif.Index
